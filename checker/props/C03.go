package props

import "kverif/core"

func init() {
	core.Register(&core.Property{
		ID:    "C03",
		Title: "NodePool limits and static node caps are never exceeded",
		Explanation: "Decides the structural mechanisms that bound capacity: (1) the only NodeClaim Create in the module is " +
			"Provisioner.Create and it is dominated by a fresh NodePool read and Limits.ExceededBy against cluster state; " +
			"(2) a scheduling pass only runs after Cluster.Synced, and Synced returns false in both of its branches while a NodeClaim has no provider id; " +
			"(3) every planned NodeClaim is built from instance types filtered by the remaining headroom and the headroom is decremented by subtractMax on every success path; " +
			"(4) static accounting: every NodePoolState method touching the per-pool maps holds the mutex, pointers read from the limit map are dereferenced only " +
			"after ensureNodePoolEntry / comma-ok, Cleanup's garbage collection reads all three NodeClaim sets, reservations are released on both outcomes of Create, " +
			"and static provisioning creates exactly as many claims as ReserveNodeCount granted.",
		NotCovered: []string{
			"arithmetic of resource sums and of the provider's real capacity versus catalogue capacity",
			"multi-round convergence to the replica count; linearizability of the CAS loops",
			"F10 (known finding): planned NodeClaims do not decrement the `nodes` key of the headroom",
		},
		Rules: c03Rules,
	})
}

func c03Rules(tier string) []Rule {
	rules := c03RulesBase(tier)
	rules = append(rules, syncedFreshRules("C03")...)
	return rules
}

func c03RulesBase(tier string) []Rule {
	const create = `^call iface:\(cr/client\.Writer\)\.Create\(.*<\*apis/v1\.NodeClaim>`
	return []Rule{
		WMC{ID: "C03.WMC1", Sink: create,
			Allowed:  []string{"(*prov.Provisioner).Create"},
			Required: []string{"(*prov.Provisioner).Create"}},
		DOM{ID: "C03.DOM1", Fn: "(*prov.Provisioner).Create", Sink: create, Gates: gates(
			G(`+^\(apis/v1\.Limits\)\.ExceededBy\(.*\.Spec\.Limits, \(\*state\.Cluster\)\.NodePoolResourcesFor\(\$0\.cluster, \$2\.NodeClaimTemplate\.NodePoolName\)\) == nil$`),
			G(`+^iface:\(cr/client\.Reader\)\.Get\(\$0\.kubeClient, .*<\*apis/v1\.NodePool>.* == nil$`),
		)},
		// the limits checked are the ones just read from the API server, not a cached copy handed in by the caller
		core.Custom{ID: "C03.PROV0", Kind: "PROV", Run: func(w *core.World, id string) []core.Result {
			return core.ArgProvenance(w, id, "(*prov.Provisioner).Create", `^call \(apis/v1\.Limits\)\.ExceededBy\(`, 0,
				`^&local<apis/v1\.NodePool>\.Spec\.Limits$`, "limits come from the NodePool object fetched in this call")
		}},
		POST{ID: "C03.POST1", Fn: "(*prov.Provisioner).Create", From: create,
			Must: []string{`^call \(\*state\.Cluster\)\.UpdateNodeClaim\(\$0\.cluster, .*ToNodeClaim`}, To: core.RetOK},
		DOM{ID: "C03.DOM2", Fn: "(*prov.Provisioner).Reconcile", Sink: `^call \(\*prov\.Provisioner\)\.Schedule\(`, Gates: gates(
			G(`+^\(\*state\.Cluster\)\.Synced\(\$0\.cluster\)$`),
		)},
		DOM{ID: "C03.DOM2b", Fn: "(*prov.Provisioner).Reconcile", Sink: `^call \(\*prov\.Provisioner\)\.CreateNodeClaims\(`, Gates: gates(
			G(`+^\(\*state\.Cluster\)\.Synced\(\$0\.cluster\)$`),
			G(`+^\(\*prov\.Provisioner\)\.Schedule\(\$0\)#1 == nil$`),
		)},
		// Synced: "false while any NodeClaim has no provider id" in both branches
		MPT{ID: "C03.SYM1", Fn: "(*state.Cluster).Synced", Ret: core.RetTrue, Min: 2, Gates: gates(
			G(`-^next\(range\(\$0\.nodeClaimNameToProviderID\)\)#0$`), // the loop over all NodeClaims ran to completion
		)},
		core.Custom{ID: "C03.SYM1b", Kind: "SYM", Run: c03SyncedLoops},
		// headroom: instance types handed to NewNodeClaim are the filtered ones when the pool has limits
		core.Custom{ID: "C03.PROV1", Kind: "PROV", Run: func(w *core.World, id string) []core.Result {
			return core.ArgProvenance(w, id, "(*sched.Scheduler).addToNewNodeClaim", `^call sched\.NewNodeClaim\(`, 3,
				`^phi\(.*\.InstanceTypeOptions\|sched\.filterByRemainingResources\(.*\.InstanceTypeOptions, .*\)\)$`, "instance types of a new NodeClaim are filtered by the pool's remaining resources")
		}},
		DOM{ID: "C03.DOM4", Fn: "(*sched.Scheduler).addToNewNodeClaim", Sink: `^call sched\.NewNodeClaim\(`, Gates: gates(
			// either the pool has no limits entry, or the filter ran and left something
			G(`-remainingResources\[.*NodePoolName\]#1$`, `+^len\(sched\.filterByRemainingResources\(.*\.InstanceTypeOptions, .*remainingResources\[.*\]#0\)\)>=1$`),
			// node count exhausted -> no claim
			G(`-remainingResources\[.*NodePoolName\]#1$`, `-remainingResources\[.*\]#0\[utils/resources\.Node\]#1$`, `-IsZero\(.*remainingResources\[.*\]#0\[utils/resources\.Node\]#0\)$`),
		)},
		POST{ID: "C03.POST2", Fn: "(*sched.Scheduler).addToNewNodeClaim", From: `^call \(\*sched\.NodeClaim\)\.Add\(`, Shallow: true,
			Must: []string{`^mapupdate \$0\.remainingResources\[.*NodePoolName\] = sched\.subtractMax\(\$0\.remainingResources\[.*NodePoolName\], .*InstanceTypeOptions\)`}},
		MPT{ID: "C03.MPT2", Fn: "(*sched.Scheduler).addToNewNodeClaim", Ret: core.RetNilConst, Gates: gates(
			G(`instr:^mapupdate \$0\.remainingResources\[.*\] = sched\.subtractMax\(`),
			G(`instr:^call \(\*sched\.NodeClaim\)\.Add\(`),
		)},
		// seeding of headroom from limits, and subtraction for every existing node
		core.Custom{ID: "C03.PROV2", Kind: "PROV", Run: c03Seed},
		POST{ID: "C03.POST5", Fn: "(*sched.Scheduler).calculateExistingNodeClaims", From: `^call sched\.NewExistingNode\(`,
			Must: []string{`^call \(\*sched\.Scheduler\)\.updateRemainingResources\(\$0, `}, Note: "every state node considered as capacity is also charged against the pool's headroom"},
		core.Custom{ID: "C03.PROV3", Kind: "PROV", Run: func(w *core.World, id string) []core.Result {
			return core.InstrPresent(w, id, "PROV", "(*sched.Scheduler).updateRemainingResources",
				`^mapupdate \$0\.remainingResources\[.*NodePoolLabelKey|^mapupdate \$0\.remainingResources\[\(\*state\.StateNode\)\.Labels\(\$1\)\["karpenter\.sh/nodepool"\]\] = utils/resources\.Subtract\(\$0\.remainingResources\[.*\], \(\*state\.StateNode\)\.Capacity\(\$1\)\)`, 1,
				"existing nodes subtract StateNode.Capacity() from the pool headroom")
		}},
		// planned claims are charged with the worst case of the same quantity the filter compares and limits are expressed
		// in: the instance types' Capacity (not allocatable), maximised per resource and subtracted from every remaining key
		core.Custom{ID: "C03.PROV4", Kind: "PROV", Run: subtractMaxRows},
		// what an existing node is charged with: for a node that is not initialized yet, zero quantities reported by the
		// node are overridden by the launched NodeClaim's capacity (a device plugin that has not registered reports 0)
		core.Custom{ID: "C03.VIEW1", Kind: "RET", Run: func(w *core.World, id string) []core.Result {
			const c = "(*state.StateNode).Capacity"
			rs := core.InstrPresent(w, id, "RET", c, `^mapupdate lo\.Assign\[.*\]\(&local<\[1\]corev1\.ResourceList>\[:\]\)\[next\(range\(\$0\.NodeClaim\.Status\.Capacity\)\)#1\] = next\(range\(\$0\.NodeClaim\.Status\.Capacity\)\)#2$`, 1, "zero quantities are taken from NodeClaim.Status.Capacity")
			rs = append(rs, core.InstrPresent(w, id, "RET", c, `^store &local<\[1\]corev1\.ResourceList>\[0\] = \$0\.Node\.Status\.Capacity$`, 1, "starting from the node's reported capacity")...)
			return rs
		}},
		// static-pool accounting of a NodeClaim is written after its StateNode was (re)built: the rebuild cleans up the
		// pool entry of the previous provider id (launch transition "" → id), which must not wipe what was just written
		NOREACH{ID: "C03.NR1", Fn: "(*state.Cluster).UpdateNodeClaim", From: `^call \(\*state\.NodePoolState\)\.UpdateNodeClaim\(`, Sink: `^call \(\*state\.Cluster\)\.newStateFromNodeClaim\(`,
			Note: "NodePoolState.UpdateNodeClaim is the last word: no StateNode rebuild (and Cleanup) after it"},
		POST{ID: "C03.POST6", Fn: "(*state.Cluster).UpdateNodeClaim", From: "", Must: []string{`^call \(\*state\.NodePoolState\)\.UpdateNodeClaim\(\$0\.NodePoolState, \$1, `}, Note: "every NodeClaim update reaches the static-pool accounting"},
		DOM{ID: "C03.VIEW1c", Fn: "(*state.StateNode).Capacity", Sink: `^store &local<\[2\]corev1\.ResourceList>\[0\] = \$0\.Node\.Status\.Capacity$`, Gates: gates(
			G(`+^\(\*state\.StateNode\)\.Initialized\(\$0\)$`, `+^\$0\.NodeClaim == nil$`),
		), Note: "the Node's own capacity is taken as is only once the node is initialized (a registered node may not report device-plugin resources yet), or when there is no NodeClaim"},
		DOM{ID: "C03.VIEW1d", Fn: "(*state.StateNode).Capacity", Sink: `^store &local<\[2\]corev1\.ResourceList>\[0\] = \$0\.NodeClaim\.Status\.Capacity$`, Gates: gates(
			G(`+^\$0\.Node == nil$`),
		), Note: "the NodeClaim's capacity alone only while there is no Node"},
		core.Custom{ID: "C03.VIEW1b", Kind: "POST", Run: func(w *core.World, id string) []core.Result {
			return postInHelpers(w, "(*state.StateNode).Capacity", func(fnName string) POST {
				return POST{ID: id, Fn: fnName, FromLit: `+^utils/resources\.IsZero\(lo\.Assign\[.*\]\(&local<\[1\]corev1\.ResourceList>\[:\]\)\[next\(range\(\$0\.NodeClaim\.Status\.Capacity\)\)#1\]\)$`,
					Must: []string{`^mapupdate lo\.Assign\[.*\]\(&local<\[1\]corev1\.ResourceList>\[:\]\)\[next\(range\(\$0\.NodeClaim\.Status\.Capacity\)\)#1\] = next\(range\(\$0\.NodeClaim\.Status\.Capacity\)\)#2$`}}
			})
		}},
		core.Custom{ID: "C03.CMP1", Kind: "ORD", Run: c03FilterCmp},
		core.Custom{ID: "C03.SYM3", Kind: "SYM", Run: c03NodeKey},

		// ---- static accounting (statenodepool.go)
		core.Custom{ID: "C03.SYM2", Kind: "SYM", Run: func(w *core.World, id string) []core.Result {
			return core.MapPtrDeref(w, id, `^\(\*state\.NodePoolState\)\.`, []string{"nodePoolNameToNodePoolLimit", "nodePoolNameToNodeClaimState"},
				`^\(\*state\.NodePoolState\)\.ensureNodePoolEntry$`, 2)
		}},
		core.Custom{ID: "C03.FCOV1", Kind: "FCOV", Run: c03CleanupCoverage},
		core.Custom{ID: "C03.LOCK1", Kind: "LOCK", Run: func(w *core.World, id string) []core.Result {
			return core.LockDiscipline(w, id, core.LockSpec{
				Type: "state.NodePoolState", Mutex: "mu",
				Fields:      []string{"nodePoolNameToNodeClaimState", "nodeClaimNameToNodePoolName", "nodePoolNameToNodePoolLimit"},
				Constructor: []string{"state.NewNodePoolState"},
				MinAccesses: 20,
			})
		}},
		POST{ID: "C03.POST3", Fn: "(*prov.Provisioner).CreateNodeClaims", From: `^call \(\*prov\.Provisioner\)\.Create\(`,
			Must:   []string{`^call \(\*state\.NodePoolState\)\.ReleaseNodeCount\(.*NodePoolState, .*NodePoolName, 1\)`},
			Excuse: []string{`-\.IsStaticNodeClaim$`},
			Note:   "a static NodeClaim's reservation is released whether Create succeeded or failed"},
		DOM{ID: "C03.DOM3", Fn: "(*controllers/static/provisioning.Controller).Reconcile", Sink: `^call \(\*prov\.Provisioner\)\.CreateNodeClaims\(`, Gates: gates(
			G(`-^\(\*state\.NodePoolState\)\.ReserveNodeCount\(.*\) < 1$`, `+^0 < \(\*state\.NodePoolState\)\.ReserveNodeCount\(`),
			G(`+^\(\*state\.Cluster\)\.HasSynced\(\$0\.cluster\)$`, `+^\(\*state\.Cluster\)\.Synced\(\$0\.cluster\)$`),
			G(`+^\(.*GetNodeCount\(.*\)#0 \+ .*GetNodeCount\(.*\)#2\) < lo\.FromPtr\[int64\]\(\$2\.Spec\.Replicas\)$`),
		)},
		core.Custom{ID: "C03.PROV4", Kind: "PROV", Run: c03StaticLoopBound},
		core.Custom{ID: "C03.PROV5", Kind: "PROV", Run: c03ReserveArgs},
		core.Custom{ID: "C03.ORD2", Kind: "ORD", Run: c03ReserveShape},
		// static drift: reservation bounded by budget and candidates, slice bounded by the grant
		core.Custom{ID: "C03.PROV6", Kind: "PROV", Run: c03StaticDrift},
		// static deprovisioning deletes only the surplus over replicas
		DOM{ID: "C03.DOM5", Fn: "(*controllers/static/deprovisioning.Controller).Reconcile", Sink: `^call iface:\(cr/client\.Writer\)\.Delete\(.*NodeClaim`, Gates: gates(
			G(`-^\(.*GetNodeCount\(.*\)#0.* - lo\.FromPtr\[int64\]\(\$2\.Spec\.Replicas\)\) < 1$`, `+^0 < \(.*GetNodeCount\(.*\)#0.* - lo\.FromPtr\[int64\]\(\$2\.Spec\.Replicas\)\)$`),
		)},
	}
}
