package props

// Builders shared by the properties that rely on the same lower-layer facts of cluster state and of NodeClaim creation
// (written for C04; C11 / C13 can adopt them with their own id prefix).

import (
	"fmt"
	"regexp"
	"sort"
	"strings"

	"golang.org/x/tools/go/ssa"

	"kverif/core"
)

// carrySpec describes a function that rebuilds a T from an old T and must hand some fields over unchanged.
type carrySpec struct {
	Fn     string   // the rebuilding function
	Type   string   // short struct name ("state.StateNode")
	Source string   // regexp (unanchored alternatives allowed) of the rendering of the old object
	Fields []string // the fields that must be carried over, each from the field of the same name
	What   string   // what relies on it (for the message)
}

// sameFieldCarry (COPY): the one T that Fn builds (in Fn itself or in a private helper extracted from it) receives, in
// every field f of Fields, exactly `<old>.f` — the same field of the old object: not another field of it (the two
// request / limit maps have the same type, so a slip compiles), not a fresh or merged value. Every store into f of the
// new object counts (composite literal and later assignments alike), at least one must exist.
// CopyCoverage (C11.COPY3) asks the weaker "the value mentions <old>.f"; this is the field-to-same-field correspondence.
func sameFieldCarry(w *core.World, id string, s carrySpec) []core.Result {
	fn := w.Fn(s.Fn)
	if fn == nil {
		return []core.Result{core.Anchor(id, "COPY", s.Fn)}
	}
	all, _ := w.StructFields(s.Type)
	have := map[string]bool{}
	for _, f := range all {
		have[f] = true
	}
	for _, f := range s.Fields {
		if !have[f] {
			return []core.Result{core.Anchor(id, "COPY", "field "+f+" of "+s.Type)}
		}
	}
	construct := "COPY:" + s.Fn + ":" + s.Type + "=same-field"
	type stored struct{ val, pos string }
	stores := map[string][]stored{}
	n := 0
	pos := w.Pos(fn.Pos())
	collect := func(dest ssa.Value) {
		for name, vs := range w.ValueFieldStores(dest) {
			for _, v := range vs {
				stores[name] = append(stores[name], stored{w.Render(v), pos})
			}
		}
	}
	w.WithHelpers(fn, func(f *ssa.Function, _ ssa.Instruction) {
		for _, b := range f.Blocks {
			for _, in := range b.Instrs {
				switch x := in.(type) {
				case *ssa.Alloc:
					// the composite literal (or a `var n T` that is filled in)
					if core.TypeStr(x.Type()) == "*"+s.Type {
						n++
						pos = w.InstrPos(x)
						collect(x)
					}
				case *ssa.Call:
					// constructor-then-fill: `n := NewT(); n.f = old.f`
					if core.TypeStr(x.Type()) == "*"+s.Type && len(w.ValueFieldStores(x)) > 0 {
						n++
						pos = w.InstrPos(x)
						collect(x)
					}
				}
			}
		}
	})
	if n != 1 {
		return []core.Result{core.Bad(id, "COPY", construct, w.Pos(fn.Pos()),
			fmt.Sprintf("expected exactly one %s being built in %s (or a private helper of it), found %d (idiom not recognised)", s.Type, s.Fn, n))}
	}
	var out []core.Result
	for _, f := range s.Fields {
		want := regexp.MustCompile(`^(?:` + s.Source + `)\.` + regexp.QuoteMeta(f) + `$`)
		if len(stores[f]) == 0 {
			out = append(out, core.Bad(id, "COPY", construct+"."+f, pos,
				fmt.Sprintf("%s: field %s of the rebuilt %s is never set — %s", s.Fn, f, s.Type, s.What)))
			continue
		}
		for _, st := range stores[f] {
			if !want.MatchString(st.val) {
				out = append(out, core.Bad(id, "COPY", construct+"."+f, st.pos,
					fmt.Sprintf("%s: field %s of the rebuilt %s is set to `%s`, not to the old object's %s — %s", s.Fn, f, s.Type, clipStr(st.val, 90), f, s.What)))
			}
		}
	}
	if len(out) == 0 {
		fs := append([]string(nil), s.Fields...)
		sort.Strings(fs)
		out = append(out, core.OK(id, "COPY", construct, len(fs), "carried field-to-same-field: "+strings.Join(fs, ",")))
	}
	return out
}

// stateCarryOverRules: what survives an informer event. A StateNode rebuilt from a NodeClaim event keeps the Node and
// every per-pod aggregate of the old StateNode, each from the field of the same name (fromClaim); a StateNode rebuilt
// from a Node event keeps the NodeClaim and the deletion mark (fromNode; its aggregates are rebuilt from the API).
// The scheduler reads Available() = Allocatable − podRequests and nets DaemonSetRequests() out of the daemon overhead still
// expected on an existing / in-flight node: a request map that silently becomes the limit map (or another node's, or an
// empty one) after the NodeClaim status update that ends every node start-up makes the node look fuller or emptier
// than it is until the next Node event.
func stateCarryOverRules(p string, fromClaim, fromNode []string) []Rule {
	var rules []Rule
	if len(fromClaim) > 0 {
		rules = append(rules, core.Custom{ID: p + ".CARRY1", Kind: "COPY", Run: func(w *core.World, id string) []core.Result {
			return sameFieldCarry(w, id, carrySpec{Fn: "(*state.Cluster).newStateFromNodeClaim", Type: "state.StateNode",
				Source: `\$2|phi\(\$2\|state\.NewNode\(\)\)`, Fields: fromClaim,
				What: "after a NodeClaim event the node's record of what is bound to it differs from what was accounted"})
		}})
	}
	if len(fromNode) > 0 {
		rules = append(rules, core.Custom{ID: p + ".CARRY2", Kind: "COPY", Run: func(w *core.World, id string) []core.Result {
			return sameFieldCarry(w, id, carrySpec{Fn: "(*state.Cluster).newStateFromNode", Type: "state.StateNode",
				Source: `\$3|phi\(\$3\|state\.NewNode\(\)\)`, Fields: fromNode,
				What: "after a Node event the node is no longer tied to its NodeClaim / deletion mark"})
		}})
	}
	return rules
}

// createdLabelsRules: the labels a NodeClaim is created with make it admit the pod it was opened for. The pod was admitted
// against the template's Requirements; the in-flight view of the NodeClaim (StateNode.Labels → ExistingNode.requirements)
// only knows its labels, and an undefined custom label does not admit a pod that requires the key. So
//
//	LBL1  every requirement key that is not well-known / restricted / simulation-only becomes a label whose value is
//	      Requirement.Any() of that same requirement, unless Any() reports that no value exists;
//	LBL2  that map is what ToNodeClaim merges into the labels, before they are copied into the object it returns;
//	LBL3  Any() reports "no value" only for an operator without values (DoesNotExist) or an empty integer range;
//	LBL4  at launch the NodeClaim's own labels win over the provider's answer.
func createdLabelsRules(p string) []Rule {
	const (
		rcl = "(*sched.NodeClaimTemplate).resolveCustomLabelsFromRequirements"
		tnc = "(*sched.NodeClaimTemplate).ToNodeClaim"
		anY = "(*scheduling.Requirement).Any"
		pop = "life.PopulateNodeClaimDetails"
	)
	key := `next\(range\(\$0\.Requirements\)\)#1`
	req := `next\(range\(\$0\.Requirements\)\)#2`
	has := func(set string) string {
		return `+^\(apim/util/sets\.Set\[string\]\)\.Has\(` + set + `, ` + key + `\)$`
	}
	anyOf := `\(\*scheduling\.Requirement\)\.Any\(` + req + `\)`
	merged := `lo\.Assign\[string, string, map\[string\]string\]\(&local<\[2\]map\[string\]string>\[:\]\)`
	emptyRange := `-^phi\(0\|\$0\.gte\) < phi\(9223372036854775807\|\(\$0\.lte \+ 1\)\)$`
	op := func(o string) string { return `-^\(\*scheduling\.Requirement\)\.Operator\(\$0\) == "` + o + `"$` }
	return []Rule{
		core.Custom{ID: p + ".LBL1", Kind: "POST", Run: func(w *core.World, id string) []core.Result {
			fn := w.Fn(rcl)
			if fn == nil {
				return []core.Result{core.Anchor(id, "POST", rcl)}
			}
			loop := `next\(range\(\$0\.Requirements\)\)#0`
			var first, good []core.Result
			// the loop may have been extracted into a private helper: decide both rows in the function that holds it
			w.WithHelpers(fn, func(f *ssa.Function, _ ssa.Instruction) {
				if good != nil {
					return
				}
				name := core.FnName(f)
				r := POST{ID: id, Fn: name, FromLit: `+^` + loop + `$`,
					Must:   []string{`^mapupdate makemap<map\[string\]string>\[` + key + `\] = ` + anyOf + `$`},
					Excuse: []string{has(`apis/v1\.WellKnownLabels`), has(`apis/v1\.RestrictedLabels`), has(`sched\.schedulingSimulationKeys`), `+^` + anyOf + ` == ""$`},
					Note:   "every custom requirement key is resolved to a label (value = Any() of that requirement) unless no value exists"}.Check(w)
				if first == nil {
					first = r
				}
				if len(r) == 1 && r[0].Status != core.Discharged && strings.HasPrefix(r[0].Msg, "vacuous") {
					return
				}
				// …and no key is left out: the function returns only once the range is exhausted
				good = append(r, DOM{ID: id, Fn: name, Sink: `^return`, Shallow: true, Gates: gates(G(`-^` + loop + `$`)),
					Note: "the labels are returned only after every requirement was looked at"}.Check(w)...)
			})
			if good != nil {
				return good
			}
			return first
		}},
		core.Custom{ID: p + ".LBL2", Kind: "PROV", Run: func(w *core.World, id string) []core.Result {
			rs := core.InstrPresent(w, id, "PROV", rcl, `^return makemap<map\[string\]string>$`, 1, "the resolved labels are the map that was filled")
			rs = append(rs, core.InstrPresent(w, id, "PROV", tnc, `^store &local<\[2\]map\[string\]string>\[[01]\] = \(\*sched\.NodeClaimTemplate\)\.resolveCustomLabelsFromRequirements\(\$0\)$`, 1,
				"the resolved custom labels are merged with the template's labels (a key present in both has the same value: the order is free)")...)
			rs = append(rs, core.InstrPresent(w, id, "PROV", tnc, `^store \$0\.NodeClaim\.ObjectMeta\.Labels = `+merged+`$`, 1, "…into the template's labels")...)
			r := POST{ID: id, Fn: tnc, From: `^store \$0\.NodeClaim\.ObjectMeta\.Labels = ` + merged + `$`,
				Must: []string{`^store &local<metav1\.ObjectMeta>\.Labels = \$0\.NodeClaim\.ObjectMeta\.Labels$`},
				Note: "the NodeClaim returned takes its labels after the merge"}
			return append(rs, r.Check(w)...)
		}},
		core.Custom{ID: p + ".LBL3", Kind: "RET", Run: func(w *core.World, id string) []core.Result {
			value := `^\(apim/util/sets\.Set\[string\]\)\.UnsortedList\(\$0\.values\)\[0\]$|^fmt\.Sprint\(`
			var rs []core.Result
			for _, g := range []Gate{G(op("In")), G(op("NotIn"), emptyRange), G(op("Exists"), emptyRange)} {
				rs = append(rs, core.RetLeavesGuarded(w, id, "RET", anY, 0, value, g, 2,
					"Any() answers \"\" (no label is written) only for an operator without values or an empty integer range")...)
			}
			return rs
		}},
		core.Custom{ID: p + ".LBL4", Kind: "PROV", Run: func(w *core.World, id string) []core.Result {
			rs := core.InstrPresent(w, id, "PROV", pop, `^store &local<\[2\]map\[string\]string>\[1\] = \$0\.ObjectMeta\.Labels$`, 1, "at launch the NodeClaim's own labels are merged last (they win over the provider's)")
			return append(rs, core.InstrPresent(w, id, "PROV", pop, `^store \$0\.ObjectMeta\.Labels = `+merged+`$`, 1, "…and stay the NodeClaim's labels")...)
		}},
	}
}
