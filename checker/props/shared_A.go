package props

// Shared builder of group A (C05, C07): what leaves the validation step of a disruption method.
//
// A graceful method (Emptiness, Multi-/SingleNodeConsolidation) waits out the validation delay inside
// Validator.Validate and re-validates its candidates there (fresh GetCandidates through the method's own filter, nomination
// check, rebuilt budget mapping). Both properties quantify over "validation re-checks": what they promise about the command
// that reaches the orchestration queue only holds if that command is the one that *came out of* the re-validation —
//
//	VALID1  every implementer T of disruption.Validator: the command T.Validate returns on success carries the candidates
//	        T's re-validation returned (T.validateCandidates(...)#0, error tested nil) — or it is the command it was given
//	        and T.validateCandidates is all-or-nothing (it succeeds only with len(result) == len(input), so the two lists
//	        name the same nodes);
//	VALID2  every implementer M of disruption.Method that owns a Validator: every command M.ComputeCommands returns is the
//	        command Validate returned — or the command that was handed to Validate, provided every validator M's
//	        constructor wires returns its input's candidates unchanged (VALID1's second case).
//
// The rules follow values, not text: locals that stay addressable (a Command built by a composite literal, a spilled
// parameter) are read through their reaching stores, and a validation step extracted into a private helper is summarised
// (which of its results is the validated command, which of its parameters it validates).

import (
	"fmt"
	"go/token"
	"go/types"
	"regexp"
	"sort"
	"strings"

	"kverif/core"

	"golang.org/x/tools/go/ssa"
)

func validatedCommandRules(p string) []Rule {
	return []Rule{
		core.Custom{ID: p + ".VALID1", Kind: "PROV", Run: valValidators},
		core.Custom{ID: p + ".VALID2", Kind: "PROV", Run: valMethods},
	}
}

const (
	valPkg       = "pkg/controllers/disruption"
	valCmdType   = "disr.Command"
	valCmdsType  = "[]disr.Command"
	valCandField = "Candidates"
)

// ---------------------------------------------------------------------------
// inventory: implementers of an interface of the disruption package

type valImpl struct {
	typ string // "*disr.EmptinessValidator"
	t   types.Type
}

func valImplementers(w *core.World, ifaceName string) ([]valImpl, *types.Named, string) {
	sp := w.SSAPkg[core.ModPath+valPkg]
	if sp == nil {
		return nil, nil, "package controllers/disruption"
	}
	m, ok := sp.Members[ifaceName].(*ssa.Type)
	if !ok {
		return nil, nil, "type disr." + ifaceName
	}
	named, _ := m.Type().(*types.Named)
	iface, ok := m.Type().Underlying().(*types.Interface)
	if !ok || named == nil {
		return nil, nil, "interface disr." + ifaceName
	}
	var out []valImpl
	for _, mem := range sp.Members {
		t, ok := mem.(*ssa.Type)
		if !ok {
			continue
		}
		if _, isIface := t.Type().Underlying().(*types.Interface); isIface {
			continue
		}
		if st, isStruct := t.Type().Underlying().(*types.Struct); isStruct {
			// a struct that merely embeds the interface is a carrier, not an implementer
			carrier := false
			for i := 0; i < st.NumFields(); i++ {
				if st.Field(i).Embedded() && types.Identical(st.Field(i).Type(), m.Type()) {
					carrier = true
				}
			}
			if carrier {
				continue
			}
		}
		for _, tt := range []types.Type{t.Type(), types.NewPointer(t.Type())} {
			if types.Implements(tt, iface) {
				out = append(out, valImpl{core.TypeStr(tt), tt})
				break
			}
		}
	}
	sort.Slice(out, func(i, j int) bool { return out[i].typ < out[j].typ })
	return out, named, ""
}

// ---------------------------------------------------------------------------
// reading addressable locals

func valInstrIndex(in ssa.Instruction) int {
	for i, x := range in.Block().Instrs {
		if x == in {
			return i
		}
	}
	return -1
}

func valFieldIndex(t types.Type, name string) int {
	if p, ok := t.Underlying().(*types.Pointer); ok {
		t = p.Elem()
	}
	st, ok := t.Underlying().(*types.Struct)
	if !ok {
		return -1
	}
	for i := 0; i < st.NumFields(); i++ {
		if st.Field(i).Name() == name {
			return i
		}
	}
	return -1
}

// valReachingDefs: the stores that may have written `*a` as a whole or `a.<field>` when `at` executes; entry reports that
// some path from the allocation reaches `at` without any of them (the zero value).
func valReachingDefs(a *ssa.Alloc, field int, at ssa.Instruction) (defs []*ssa.Store, entry bool) {
	isDef := func(in ssa.Instruction) *ssa.Store {
		st, ok := in.(*ssa.Store)
		if !ok {
			return nil
		}
		if st.Addr == ssa.Value(a) {
			return st
		}
		if fa, ok := st.Addr.(*ssa.FieldAddr); ok && fa.X == ssa.Value(a) && fa.Field == field {
			return st
		}
		return nil
	}
	seen := map[*ssa.BasicBlock]bool{}
	have := map[*ssa.Store]bool{}
	var walk func(b *ssa.BasicBlock, from int)
	walk = func(b *ssa.BasicBlock, from int) {
		for i := from; i >= 0; i-- {
			in := b.Instrs[i]
			if in == ssa.Instruction(a) {
				entry = true
				return
			}
			if st := isDef(in); st != nil {
				if !have[st] {
					have[st] = true
					defs = append(defs, st)
				}
				return
			}
		}
		if len(b.Preds) == 0 {
			entry = true
			return
		}
		for _, p := range b.Preds {
			if !seen[p] {
				seen[p] = true
				walk(p, len(p.Instrs)-1)
			}
		}
	}
	walk(at.Block(), valInstrIndex(at)-1)
	return defs, entry
}

// valEscapes: the local is written or read by something other than loads, stores and field accesses of this function
// (its address is passed on, captured, stored): its content cannot be followed.
func valEscapes(a *ssa.Alloc, field int) bool {
	refs := a.Referrers()
	if refs == nil {
		return false
	}
	for _, r := range *refs {
		switch x := r.(type) {
		case *ssa.DebugRef:
		case *ssa.UnOp:
			if x.Op != token.MUL {
				return true
			}
		case *ssa.Store:
			if x.Val == ssa.Value(a) {
				return true
			}
		case *ssa.FieldAddr:
			if x.Field != field {
				continue // other fields do not matter for what the command disrupts
			}
			if fr := x.Referrers(); fr != nil {
				for _, u := range *fr {
					switch y := u.(type) {
					case *ssa.DebugRef:
					case *ssa.UnOp:
						if y.Op != token.MUL {
							return true
						}
					case *ssa.Store:
						if y.Val == ssa.Value(x) {
							return true
						}
					default:
						return true
					}
				}
			}
		default:
			return true
		}
	}
	return false
}

func valLoadOf(v ssa.Value) (*ssa.UnOp, *ssa.Alloc) {
	ld, ok := v.(*ssa.UnOp)
	if !ok || ld.Op != token.MUL {
		return nil, nil
	}
	a, ok := ld.X.(*ssa.Alloc)
	if !ok {
		return nil, nil
	}
	return ld, a
}

func valSameDefs(a, b []*ssa.Store, ea, eb bool) bool {
	if ea != eb || len(a) != len(b) {
		return false
	}
	m := map[*ssa.Store]bool{}
	for _, s := range a {
		m[s] = true
	}
	for _, s := range b {
		if !m[s] {
			return false
		}
	}
	return true
}

// valStaticHelper: the unexported function of the disruption package a call statically targets (nil otherwise).
func valStaticHelper(c *ssa.CallCommon) *ssa.Function {
	if c.IsInvoke() {
		return nil
	}
	f := c.StaticCallee()
	if f == nil || len(f.Blocks) == 0 || f.Synthetic != "" || f.Object() == nil || f.Object().Exported() || core.IsTestSupport(f) ||
		core.FnPkg(f) != "controllers/disruption" || len(c.Args) != len(f.Params) {
		return nil
	}
	return f
}

func valCallOf(v ssa.Value) (*ssa.Call, int, bool) {
	switch x := v.(type) {
	case *ssa.Call:
		return x, 0, true
	case *ssa.Extract:
		if c, ok := x.Tuple.(*ssa.Call); ok {
			return c, x.Index, true
		}
	}
	return nil, 0, false
}

func valReturns(fn *ssa.Function) []*ssa.Return {
	var out []*ssa.Return
	for _, b := range fn.Blocks {
		if len(b.Instrs) == 0 || (len(b.Preds) == 0 && b.Index != 0) {
			continue // the recover block is not a way out of the function's own code
		}
		if r, ok := b.Instrs[len(b.Instrs)-1].(*ssa.Return); ok {
			out = append(out, r)
		}
	}
	return out
}

// ---------------------------------------------------------------------------
// VALID1

// valCands: where the Candidates of a Command-typed value come from.
type valCands struct {
	input   bool        // the Candidates of a Command parameter, untouched
	zero    bool        // none (zero Command)
	vals    []ssa.Value // values stored into the field
	unknown string      // idiom not recognised
}

func (c *valCands) merge(o valCands) {
	c.input = c.input || o.input
	c.zero = c.zero || o.zero
	c.vals = append(c.vals, o.vals...)
	if c.unknown == "" {
		c.unknown = o.unknown
	}
}

func valCandidatesOf(w *core.World, owner *ssa.Function, v ssa.Value, depth int, seen map[ssa.Value]bool) valCands {
	if depth > 6 || seen[v] {
		return valCands{}
	}
	seen[v] = true
	defer delete(seen, v)
	switch x := v.(type) {
	case *ssa.Parameter:
		return valCands{input: true}
	case *ssa.Const:
		return valCands{zero: true}
	case *ssa.Phi:
		var out valCands
		for _, e := range x.Edges {
			out.merge(valCandidatesOf(w, owner, e, depth+1, seen))
		}
		return out
	case *ssa.UnOp:
		ld, a := valLoadOf(x)
		if ld == nil {
			break
		}
		fi := valFieldIndex(a.Type(), valCandField)
		if fi < 0 || valEscapes(a, fi) {
			return valCands{unknown: "the command lives in a local whose address is passed on"}
		}
		defs, entry := valReachingDefs(a, fi, ld)
		out := valCands{zero: entry}
		for _, st := range defs {
			if st.Addr == ssa.Value(a) {
				out.merge(valCandidatesOf(w, owner, st.Val, depth+1, seen))
			} else {
				out.vals = append(out.vals, st.Val)
			}
		}
		return out
	case *ssa.Call, *ssa.Extract:
		// a private helper that assembles the command: read its single return in the caller's terms
		call, k, _ := valCallOf(v)
		if call == nil {
			break
		}
		h, _, leave, ok := w.EnterHelper(owner, v)
		if !ok {
			break
		}
		// EnterHelper resolves "spilled" results to the last whole store; a Command edited field by field must be read
		// from the return itself
		rets := valReturns(h)
		if len(rets) != 1 || k >= len(rets[0].Results) {
			leave()
			break
		}
		in := valCandidatesOf(w, h, rets[0].Results[k], depth+1, map[ssa.Value]bool{})
		leave()
		out := valCands{zero: in.zero, unknown: in.unknown}
		argOf := func(p *ssa.Parameter) ssa.Value {
			for i, q := range h.Params {
				if q == p && i < len(call.Call.Args) {
					return call.Call.Args[i]
				}
			}
			return nil
		}
		if in.input {
			// which Command parameter? the returned value's root
			var root *ssa.Parameter
			for _, p := range h.Params {
				if core.TypeStr(p.Type()) == valCmdType {
					if root != nil {
						return valCands{unknown: "helper with several Command parameters"}
					}
					root = p
				}
			}
			if a := argOf(root); root != nil && a != nil {
				out.merge(valCandidatesOf(w, owner, a, depth+1, seen))
			} else {
				out.unknown = "helper result cannot be mapped to the caller's command"
			}
		}
		for _, val := range in.vals {
			if p, isParam := val.(*ssa.Parameter); isParam {
				if a := argOf(p); a != nil {
					out.vals = append(out.vals, a)
					continue
				}
			}
			out.unknown = "the helper " + core.FnName(h) + " fills Candidates with a value of its own"
		}
		return out
	}
	return valCands{unknown: "`" + clipStr(w.Render(v), 100) + "` is not a parameter, a local or a private helper's result"}
}

type valValidator struct {
	typ          string
	fn           *ssa.Function
	identity     bool // every successful Validate hands back the candidates it was given
	allOrNothing bool // validateCandidates succeeds only with len(result) == len(input)
	revalidate   string
}

// valAllOrNothing: every success return of the re-validation is guarded by len(input) == len(result).
func valAllOrNothing(w *core.World, fn *ssa.Function) bool {
	var in *ssa.Parameter
	for _, p := range fn.Params {
		if core.TypeStr(p.Type()) == "[]*disr.Candidate" {
			in = p
		}
	}
	if in == nil {
		return false
	}
	sinks := w.ReturnSinks(fn, core.RetOK)
	if len(sinks) == 0 {
		return false
	}
	for _, s := range sinks {
		a, b := regexp.QuoteMeta(w.Render(in)), regexp.QuoteMeta(w.Render(s.Ret.Results[0]))
		if !w.RetGuarded(s, G(`+^len\(`+a+`\) == len\(`+b+`\)$`, `+^len\(`+b+`\) == len\(`+a+`\)$`)) {
			return false
		}
	}
	return true
}

func valClassifyValidators(w *core.World, id string) (map[string]*valValidator, []core.Result) {
	impls, _, missing := valImplementers(w, "Validator")
	if missing != "" {
		return nil, []core.Result{core.Anchor(id, "PROV", missing)}
	}
	info := map[string]*valValidator{}
	var out []core.Result
	for _, im := range impls {
		name := "(" + im.typ + ").Validate"
		construct := "PROV:" + name + ":result"
		fn := w.Fn(name)
		if fn == nil {
			out = append(out, core.Anchor(id, "PROV", name))
			continue
		}
		v := &valValidator{typ: im.typ, fn: fn, revalidate: "(" + im.typ + ").validateCandidates"}
		info[im.typ] = v
		if rf := w.Fn(v.revalidate); rf != nil {
			v.allOrNothing = valAllOrNothing(w, rf)
		}
		sinks := w.ReturnSinks(fn, core.RetOK)
		n, nInput := 0, 0
		bad := func(pos, msg string) { out = append(out, core.Bad(id, "PROV", construct, pos, msg)) }
		for _, s := range sinks {
			if len(s.Ret.Results) != 2 || core.TypeStr(s.Ret.Results[0].Type()) != valCmdType {
				bad(w.InstrPos(s.Ret), name+" does not return (Command, error)")
				continue
			}
			rv := s.Ret.Results[0]
			if phi, ok := rv.(*ssa.Phi); ok && s.Pred != nil && phi.Block() == s.Ret.Block() {
				for i, p := range phi.Block().Preds {
					if p == s.Pred {
						rv = phi.Edges[i]
					}
				}
			}
			cs := valCandidatesOf(w, fn, rv, 0, map[ssa.Value]bool{})
			if cs.unknown != "" {
				bad(w.InstrPos(s.Ret), "cannot tell which candidates the command returned by "+name+" carries ("+cs.unknown+"): idiom not recognised")
				continue
			}
			if !cs.input && len(cs.vals) == 0 {
				continue // a zero Command disrupts nothing
			}
			n++
			if cs.input {
				nInput++
				if w.Fn(v.revalidate) == nil {
					out = append(out, core.Anchor(id, "PROV", v.revalidate))
				} else if !v.allOrNothing {
					bad(w.InstrPos(s.Ret), name+" can return the command with the candidate list it was given, although "+v.revalidate+
						" succeeds with a subset (its success is not tied to len(result) == len(input)): the filtered result of the re-validation is discarded and candidates that became protected or no longer fit the budget during the validation delay stay in the command")
				}
			}
			for _, val := range cs.vals {
				call, idx, isCall := valCallOf(val)
				callee := ""
				if isCall && call.Call.StaticCallee() != nil {
					callee = core.FnName(call.Call.StaticCallee())
				}
				if !isCall || idx != 0 || callee != v.revalidate {
					bad(w.InstrPos(s.Ret), "the command returned by "+name+" carries the candidates `"+clipStr(w.Render(val), 120)+"`, not the result of "+v.revalidate)
					continue
				}
				if !w.RetGuarded(s, G(`+^`+regexp.QuoteMeta(w.Render(call))+`#1 == nil$`)) {
					bad(w.InstrPos(s.Ret), name+" returns the re-validated candidates without having tested the re-validation's error")
				}
			}
		}
		if n == 0 {
			bad(w.Pos(fn.Pos()), "vacuous: "+name+" has no success return that carries a command")
		}
		v.identity = n > 0 && nInput == n
	}
	if len(impls) < 2 {
		out = append(out, core.Bad(id, "PROV", "PROV:disr.Validator", "", fmt.Sprintf("vacuous: %d implementer(s) of disruption.Validator found, 2 confirmed by hand", len(impls))))
	}
	return info, out
}

func valValidators(w *core.World, id string) []core.Result {
	info, out := valClassifyValidators(w, id)
	if len(out) > 0 {
		return out
	}
	var facts []string
	for _, k := range core.SortedKeys(valKeys(info)) {
		v := info[k]
		if v.identity {
			facts = append(facts, k+": returns its input, "+v.revalidate+" is all-or-nothing")
		} else {
			facts = append(facts, k+": returns the command trimmed to "+v.revalidate+"(...)#0")
		}
	}
	return []core.Result{core.OK(id, "PROV", "PROV:disr.Validator.Validate:result", len(info), "every validator's result carries exactly the candidates that passed its re-validation", facts...)}
}

func valKeys(m map[string]*valValidator) map[string]bool {
	out := map[string]bool{}
	for k := range m {
		out[k] = true
	}
	return out
}

// ---------------------------------------------------------------------------
// VALID2

type valOrigin int

const (
	oNeutral   valOrigin = iota // no command at all (empty slice, zero Command)
	oValidated                  // the command Validate returned
	oArg                        // the command that was handed to Validate
	oOther                      // anything else
)

func valWorst(a, b valOrigin) valOrigin {
	if b > a {
		return b
	}
	return a
}

// valSite: a call after which a command counts as validated — Validator.Validate itself, or a private helper that wraps it.
type valSite struct {
	at  ssa.Value         // the call
	arg ssa.Value         // the command handed in (in this function's values); nil when it is not a plain value here
	res map[int]valOrigin // result index → what that result is
}

type valFlow struct {
	w     *core.World
	fn    *ssa.Function
	sites []valSite
	field int
	notes []string
}

func valIsValidateCall(c *ssa.Call, iface *types.Named) bool {
	cc := c.Common()
	if !cc.IsInvoke() || cc.Method == nil || cc.Method.Name() != "Validate" {
		return false
	}
	return types.Identical(cc.Value.Type(), iface)
}

func valCmdArg(args []ssa.Value) ssa.Value {
	for _, a := range args {
		if core.TypeStr(a.Type()) == valCmdType {
			return a
		}
	}
	return nil
}

// valFlowOf collects the validation sites of fn: direct Validate calls and (depth permitting) calls of private helpers that
// contain one.
func valFlowOf(w *core.World, fn *ssa.Function, iface *types.Named, depth int, busy map[*ssa.Function]bool) *valFlow {
	fl := &valFlow{w: w, fn: fn}
	var cmdT types.Type
	for _, b := range fn.Blocks {
		for _, in := range b.Instrs {
			c, ok := in.(*ssa.Call)
			if !ok {
				continue
			}
			if valIsValidateCall(c, iface) {
				arg := valCmdArg(c.Call.Args)
				if arg != nil {
					cmdT = arg.Type()
				}
				fl.sites = append(fl.sites, valSite{at: c, arg: arg, res: map[int]valOrigin{0: oValidated}})
			}
		}
	}
	if depth < 2 {
		for _, b := range fn.Blocks {
			for _, in := range b.Instrs {
				c, ok := in.(*ssa.Call)
				if !ok {
					continue
				}
				h := valStaticHelper(c.Common())
				if h == nil || busy[h] || h == fn {
					continue
				}
				busy[h] = true
				hf := valFlowOf(w, h, iface, depth+1, busy)
				delete(busy, h)
				if len(hf.sites) == 0 {
					continue
				}
				site := valSite{at: c, res: map[int]valOrigin{}}
				// which of the helper's parameters does it validate?
				for _, hs := range hf.sites {
					if hs.arg == nil {
						continue
					}
					root := hs.arg
					if ld, a := valLoadOf(root); ld != nil {
						if defs, entry := valReachingDefs(a, valFieldIndex(a.Type(), valCandField), ld); !entry && len(defs) == 1 && defs[0].Addr == ssa.Value(a) {
							root = defs[0].Val
						}
					}
					if p, isParam := root.(*ssa.Parameter); isParam {
						for i, q := range h.Params {
							if q == p {
								site.arg = c.Call.Args[i]
							}
						}
					}
				}
				// what are its results?
				sig := h.Signature.Results()
				for k := 0; k < sig.Len(); k++ {
					ts := core.TypeStr(sig.At(k).Type())
					if ts != valCmdType && ts != valCmdsType {
						continue
					}
					o := oNeutral
					for _, r := range valReturns(h) {
						if ts == valCmdType {
							o = valWorst(o, hf.origin(r.Results[k], 0, map[ssa.Value]bool{}))
						} else {
							o = valWorst(o, hf.sliceOrigin(r.Results[k], 0, map[ssa.Value]bool{}))
						}
					}
					site.res[k] = o
				}
				fl.notes = append(fl.notes, "validation runs inside "+core.FnName(h))
				fl.sites = append(fl.sites, site)
			}
		}
	}
	if cmdT != nil {
		fl.field = valFieldIndex(cmdT, valCandField)
	} else {
		// the Command type, for field lookups, from any Command-typed value of the signature
		if sp := w.SSAPkg[core.ModPath+valPkg]; sp != nil {
			if t, ok := sp.Members["Command"].(*ssa.Type); ok {
				fl.field = valFieldIndex(t.Type(), valCandField)
			}
		}
	}
	return fl
}

func (fl *valFlow) sameAsArg(v, arg ssa.Value) bool {
	if arg == nil {
		return false
	}
	if v == arg {
		return true
	}
	lv, av := valLoadOf(v)
	la, aa := valLoadOf(arg)
	if lv == nil || la == nil || av != aa || valEscapes(av, fl.field) {
		return false
	}
	d1, e1 := valReachingDefs(av, fl.field, lv)
	d2, e2 := valReachingDefs(aa, fl.field, la)
	return valSameDefs(d1, d2, e1, e2)
}

// origin of a Command-typed value.
func (fl *valFlow) origin(v ssa.Value, depth int, seen map[ssa.Value]bool) valOrigin {
	if depth > 8 {
		return oOther
	}
	if seen[v] {
		return oNeutral
	}
	seen[v] = true
	defer delete(seen, v)
	if call, idx, ok := valCallOf(v); ok {
		for _, s := range fl.sites {
			if s.at == ssa.Value(call) {
				if o, has := s.res[idx]; has {
					return o
				}
				return oOther
			}
		}
	}
	for _, s := range fl.sites {
		if fl.sameAsArg(v, s.arg) {
			return oArg
		}
	}
	switch x := v.(type) {
	case *ssa.Const:
		return oNeutral
	case *ssa.Phi:
		o := oNeutral
		for _, e := range x.Edges {
			o = valWorst(o, fl.origin(e, depth+1, seen))
		}
		return o
	case *ssa.UnOp:
		ld, a := valLoadOf(x)
		if ld == nil || valEscapes(a, fl.field) {
			return oOther
		}
		defs, entry := valReachingDefs(a, fl.field, ld)
		o := oNeutral
		for _, st := range defs {
			if st.Addr != ssa.Value(a) {
				// the candidates were (re)assigned on their own: only fine when they are the validated command's
				if f, ok := st.Val.(*ssa.Field); ok && f.Field == fl.field && fl.origin(f.X, depth+1, seen) == oValidated {
					o = valWorst(o, oValidated)
					continue
				}
				if fld, fa := valFieldLoad(st.Val); fld != nil && fa.Field == fl.field {
					if src, ok := fa.X.(*ssa.Alloc); ok && !valEscapes(src, fl.field) {
						if d2, e2 := valReachingDefs(src, fl.field, fld); !e2 && len(d2) == 1 && d2[0].Addr == ssa.Value(src) && fl.origin(d2[0].Val, depth+1, seen) == oValidated {
							o = valWorst(o, oValidated)
							continue
						}
					}
				}
				return oOther
			}
			o = valWorst(o, fl.origin(st.Val, depth+1, seen))
		}
		_ = entry
		return o
	}
	return oOther
}

func valFieldLoad(v ssa.Value) (*ssa.UnOp, *ssa.FieldAddr) {
	ld, ok := v.(*ssa.UnOp)
	if !ok || ld.Op != token.MUL {
		return nil, nil
	}
	fa, ok := ld.X.(*ssa.FieldAddr)
	if !ok {
		return nil, nil
	}
	return ld, fa
}

// sliceOrigin of a []Command-typed value: the worst origin among the commands it can hold.
func (fl *valFlow) sliceOrigin(v ssa.Value, depth int, seen map[ssa.Value]bool) valOrigin {
	if depth > 8 {
		return oOther
	}
	if seen[v] {
		return oNeutral
	}
	seen[v] = true
	defer delete(seen, v)
	if call, idx, ok := valCallOf(v); ok {
		for _, s := range fl.sites {
			if s.at == ssa.Value(call) {
				if o, has := s.res[idx]; has {
					return o
				}
				return oOther
			}
		}
		if b, isB := call.Call.Value.(*ssa.Builtin); isB && b.Name() == "append" && len(call.Call.Args) == 2 {
			return valWorst(fl.sliceOrigin(call.Call.Args[0], depth+1, seen), fl.sliceOrigin(call.Call.Args[1], depth+1, seen))
		}
		return oOther
	}
	switch x := v.(type) {
	case *ssa.Const:
		return oNeutral
	case *ssa.Phi:
		o := oNeutral
		for _, e := range x.Edges {
			o = valWorst(o, fl.sliceOrigin(e, depth+1, seen))
		}
		return o
	case *ssa.MakeSlice:
		// filled through IndexAddr stores
		return fl.elemStores(x, depth, seen)
	case *ssa.Slice:
		if a, ok := x.X.(*ssa.Alloc); ok {
			return fl.elemStores(a, depth, seen)
		}
		return fl.sliceOrigin(x.X, depth+1, seen)
	case *ssa.UnOp:
		ld, a := valLoadOf(x)
		if ld == nil || valEscapes(a, -1) {
			return oOther
		}
		defs, _ := valReachingDefs(a, -1, ld)
		o := oNeutral
		for _, st := range defs {
			o = valWorst(o, fl.sliceOrigin(st.Val, depth+1, seen))
		}
		return o
	}
	return oOther
}

// elemStores: the commands stored into the backing array / slice `base` through base[i] = v.
func (fl *valFlow) elemStores(base ssa.Value, depth int, seen map[ssa.Value]bool) valOrigin {
	refs := base.Referrers()
	if refs == nil {
		return oNeutral
	}
	o := oNeutral
	for _, r := range *refs {
		switch x := r.(type) {
		case *ssa.DebugRef, *ssa.Slice, *ssa.Return:
		case *ssa.IndexAddr:
			if ur := x.Referrers(); ur != nil {
				for _, u := range *ur {
					switch y := u.(type) {
					case *ssa.Store:
						if y.Addr == ssa.Value(x) {
							o = valWorst(o, fl.origin(y.Val, depth+1, seen))
						} else {
							return oOther
						}
					case *ssa.UnOp, *ssa.DebugRef:
					case *ssa.FieldAddr:
						// cmds[i].Candidates = … : a command edited in place
						if y.Field == fl.field {
							return oOther
						}
					default:
						return oOther
					}
				}
			}
		case *ssa.Call:
			// len/cap/append of the slice do not put other commands into it; anything else may
			if b, isB := x.Call.Value.(*ssa.Builtin); isB && (b.Name() == "len" || b.Name() == "cap" || b.Name() == "append") {
				continue
			}
			return oOther
		case *ssa.UnOp:
		default:
			return oOther
		}
	}
	return o
}

// valWired: the concrete validator types the constructors of method type m (a pointer to a struct with a Validator
// field) put into that field: the argument types of disr.WithValidator(...) in every function that stores the field.
func valWired(w *core.World, m types.Type, iface *types.Named) (typs []string, ctors []string, unknown string) {
	seenT, seenC := map[string]bool{}, map[string]bool{}
	if _, isPtr := m.Underlying().(*types.Pointer); !isPtr {
		m = types.NewPointer(m) // the field is always reached through the address of the method value
	}
	for _, fn := range w.Fns {
		if core.IsTestSupport(fn) || core.FnPkg(fn) != "controllers/disruption" {
			continue
		}
		stores := false
		for _, b := range fn.Blocks {
			for _, in := range b.Instrs {
				st, ok := in.(*ssa.Store)
				if !ok {
					continue
				}
				fa, ok := st.Addr.(*ssa.FieldAddr)
				if !ok || !types.Identical(fa.X.Type(), m) || !types.Identical(st.Val.Type(), iface) {
					continue
				}
				stores = true
				if mi, ok := st.Val.(*ssa.MakeInterface); ok {
					seenT[core.TypeStr(mi.X.Type())] = true
				}
			}
		}
		if !stores {
			continue
		}
		root := core.RootFn(fn)
		seenC[core.FnName(root)] = true
		for _, f := range core.WithClosures(root) {
			for _, b := range f.Blocks {
				for _, in := range b.Instrs {
					c, ok := in.(*ssa.Call)
					if !ok || c.Call.StaticCallee() == nil || core.FnName(c.Call.StaticCallee()) != "disr.WithValidator" || len(c.Call.Args) != 1 {
						continue
					}
					if mi, ok := c.Call.Args[0].(*ssa.MakeInterface); ok {
						seenT[core.TypeStr(mi.X.Type())] = true
					} else {
						unknown = "a validator of unknown concrete type is wired in " + core.FnName(root)
					}
				}
			}
		}
	}
	typs, ctors = core.SortedKeys(seenT), core.SortedKeys(seenC)
	if len(typs) == 0 && unknown == "" {
		unknown = "no constructor wiring a concrete validator found"
	}
	return typs, ctors, unknown
}

func valMethods(w *core.World, id string) []core.Result {
	info, pre := valClassifyValidators(w, id)
	if info == nil {
		return pre
	}
	// VALID1's own violations are reported by VALID1; here only the classification is used
	_, iface, missing := valImplementers(w, "Validator")
	if missing != "" {
		return []core.Result{core.Anchor(id, "PROV", missing)}
	}
	methods, _, missing := valImplementers(w, "Method")
	if missing != "" {
		return []core.Result{core.Anchor(id, "PROV", missing)}
	}
	var out []core.Result
	var facts []string
	bound := 0
	for _, m := range methods {
		// does the method type own a Validator?
		st, ok := m.t.Underlying().(*types.Pointer)
		var str *types.Struct
		if ok {
			str, _ = st.Elem().Underlying().(*types.Struct)
		} else {
			str, _ = m.t.Underlying().(*types.Struct)
		}
		owns := false
		if str != nil {
			for i := 0; i < str.NumFields(); i++ {
				if types.Identical(str.Field(i).Type(), iface) {
					owns = true
				}
			}
		}
		name := "(" + m.typ + ").ComputeCommands"
		construct := "PROV:" + name + ":validated"
		fn := w.Fn(name)
		if fn == nil {
			out = append(out, core.Anchor(id, "PROV", name))
			continue
		}
		fl := valFlowOf(w, fn, iface, 0, map[*ssa.Function]bool{fn: true})
		if !owns && len(fl.sites) == 0 {
			continue // Drift, StaticDrift: no validation delay, nothing to hand over
		}
		if len(fl.sites) == 0 {
			out = append(out, core.Bad(id, "PROV", construct, w.Pos(fn.Pos()), name+" owns a Validator but neither it nor a private helper calls Validator.Validate (anchor not found)"))
			continue
		}
		idx := -1
		for k := 0; k < fn.Signature.Results().Len(); k++ {
			if core.TypeStr(fn.Signature.Results().At(k).Type()) == valCmdsType {
				idx = k
			}
		}
		if idx < 0 {
			out = append(out, core.Bad(id, "PROV", construct, w.Pos(fn.Pos()), name+" does not return []Command (idiom not recognised)"))
			continue
		}
		nRet := 0
		for _, r := range valReturns(fn) {
			o := fl.sliceOrigin(r.Results[idx], 0, map[ssa.Value]bool{})
			switch o {
			case oNeutral:
			case oValidated:
				nRet++
			case oArg:
				nRet++
				typs, ctors, unknown := valWired(w, m.t, iface)
				var trimming []string
				for _, t := range typs {
					if v := info[t]; v == nil || !v.identity {
						trimming = append(trimming, t)
					}
				}
				switch {
				case unknown != "":
					out = append(out, core.Bad(id, "PROV", construct, w.InstrPos(r), name+" returns the command it handed to Validator.Validate and discards the command Validate returned; which validator it runs cannot be resolved ("+unknown+"), so the discarded result may be a trimmed command"))
				case len(trimming) > 0:
					out = append(out, core.Bad(id, "PROV", construct, w.InstrPos(r), name+" returns the command it handed to Validator.Validate and discards the command Validate returned, but the validator wired in "+strings.Join(ctors, ", ")+" ("+strings.Join(trimming, ", ")+
						") returns a command trimmed to the candidates that passed re-validation: nodes that became protected (nominated, do-not-disrupt, blocking PDB) or no longer fit the rebuilt budget during the validation delay are disrupted all the same"))
				default:
					facts = append(facts, name+": returns its own command; wired "+strings.Join(typs, ", ")+" returns its input")
				}
			default:
				out = append(out, core.Bad(id, "PROV", construct, w.InstrPos(r), name+" returns `"+clipStr(w.RenderInstr(r), 120)+"`: a command that is neither the one Validator.Validate returned nor the one handed to it (built or edited around the validation step)"))
			}
		}
		if nRet == 0 {
			out = append(out, core.Bad(id, "PROV", construct, w.Pos(fn.Pos()), "vacuous: "+name+" never returns a command"))
			continue
		}
		bound++
		for _, n := range fl.notes {
			facts = append(facts, name+": "+n)
		}
	}
	if bound < 3 && len(out) == 0 {
		out = append(out, core.Bad(id, "PROV", "PROV:disr.Method.ComputeCommands:validated", "", fmt.Sprintf("vacuous: %d method(s) with a validation step found, 3 confirmed by hand (Emptiness, MultiNodeConsolidation, SingleNodeConsolidation)", bound)))
	}
	if len(out) == 0 {
		out = append(out, core.OK(id, "PROV", "PROV:disr.Method.ComputeCommands:validated", bound, "every command a method returns after validation is the validator's result (or its input, for validators that return their input)", facts...))
	}
	return out
}
