package props

import (
	"fmt"
	"go/types"
	"regexp"
	"sort"
	"strings"

	"kverif/core"

	"golang.org/x/tools/go/ssa"
)

func init() {
	core.Register(&core.Property{
		ID:    "C18",
		Title: "Scheduling simulations have no side effects",
		Explanation: "Decides over the call-graph cone of disruption.SimulateScheduling (karpenter code, CHA for interfaces, lexical closure attachment) and of Scheduler.Solve / NewScheduler: " +
			"(1) no client Writer/StatusWriter/SubResourceWriter invocation, no CloudProvider.Create/Delete, no Results.Record; " +
			"(2) no call of a method that writes state.Cluster or state.NodePoolState memory — the writer set is derived from the code (stores, map updates, deletes, sync.Map/atomic mutations through the receiver, transitively), the only allowed ones being the pod bookkeeping named in the property; " +
			"(3) the state nodes handed to the scheduler derive from Cluster.DeepCopyNodes, which deep-copies every node, and the deep copies of StateNode/HostPortUsage/VolumeUsage allocate every reference-typed field afresh; " +
			"(4) no store into a field of cloudprovider.InstanceType/Offering/InstanceTypeOverhead in the cone except the audited sync.Once memo; InstanceTypeOptions is only ever assigned freshly built slices and no in-place sorter is applied to the provider's instance-type map; " +
			"(5) the informer-cache aliases (UnsafeDisableDeepCopy reads) inside the cone are the audited ones and nothing stores through the aliased objects; capacity-buffer virtual pods are copied before scheduling; the pod being relaxed is a DeepCopy; " +
			"(6) the cluster-state accessors a simulation calls (Nodes, ForPodsWithAntiAffinity, GetDaemonSetPod, DeepCopyNodes) only read: no instruction under the cone — in a method body, in a closure handed to sync.Map.Range / lo.Map / an iterator, or in a helper the memory is passed to — stores, updates, deletes, sync.Map- or atomic-mutates, sorts or otherwise writes memory whose origin (traced back through loads, phis, locals, captured variables, sync.Map loads and the results of karpenter functions) passes through a field of state.Cluster / state.NodePoolState, the allowed pod bookkeeping excepted (C18.WSET6); " +
			"(7) the same origin tracing for provider catalogue memory: an in-place adjustment in the cone never lands in a map / slice / object that may be (an alias of) a field of InstanceType / Offering / InstanceTypeOverhead, also when it went through a phi or through a helper that can hand back its argument (C18.WSET7), and every ResourceList-returning helper of utils/resources returns a map made on that path — a parameter is handed back only by an in-place API that also writes into it (MergeInto) (C18.RET1).",
		NotCovered: []string{"mutation through aliasing that the field-path analysis cannot see (e.g. via reflection or unsafe)", "memory reachable only through dependency code", "events published by a simulation (allowed by the property)",
			"origin tracing (C18.WSET6/WSET7/RET1) takes the result of a dependency function (maps.Clone, lo.Assign, DeepCopy, resourcehelper.PodRequests …) or of an interface / dynamic call to be fresh, does not follow the elements of a slice built by append, and stops at the parameters of the function that performs the write unless the callee-side summaries (ParamWrites for maps / slices, DerefWrites for pointers) carry it to the call site"},
		Rules: c18Rules,
	})
}

var c18Writers = []string{
	`^(call|go|defer) iface:\(cr/client\.(Writer|StatusWriter|SubResourceWriter)\)\.`,
	`^(call|go|defer) iface:\(cloudprovider\.CloudProvider\)\.(Create|Delete)\(`,
	`^(call|go|defer) \(sched\.Results\)\.Record\(`,
	`^(call|go|defer) \(\*prov\.Provisioner\)\.(Create|CreateNodeClaims)\(`,
	`^(call|go|defer) \(\*disr\.Queue\)\.(StartCommand|CompleteCommand)\(`,
}

var c18Roots = []string{"disr.SimulateScheduling"}
var c18SolveRoots = []string{"(*sched.Scheduler).Solve", "sched.NewScheduler", "(*prov.Provisioner).NewScheduler"}

func c18Rules(tier string) []Rule {
	return []Rule{
		CONE{ID: "C18.CONE1", Roots: c18Roots, Forbidden: c18Writers, MinSize: 300},
		CONE{ID: "C18.CONE2", Roots: c18SolveRoots, Forbidden: c18Writers, MinSize: 300},
		core.Custom{ID: "C18.CONE3", Kind: "CONE", Run: func(w *core.World, id string) []core.Result {
			return c18StateWriters(w, id, append(append([]string{}, c18Roots...), c18SolveRoots...),
				map[string]string{
					"(*state.Cluster).MarkPodSchedulingDecisions":  "pod bookkeeping named by the property",
					"(*state.Cluster).UpdatePodToNodeClaimMapping": "pod bookkeeping named by the property",
					"(*state.Cluster).AckPods":                     "pod bookkeeping (first-seen timestamps)",
				})
		}},
		// the provisioning pass may additionally nominate (Record) but nothing else, until it creates NodeClaims
		core.Custom{ID: "C18.CONE4", Kind: "CONE", Run: func(w *core.World, id string) []core.Result {
			return c18StateWriters(w, id, []string{"(*prov.Provisioner).Schedule"},
				map[string]string{
					"(*state.Cluster).MarkPodSchedulingDecisions":  "pod bookkeeping",
					"(*state.Cluster).UpdatePodToNodeClaimMapping": "pod bookkeeping",
					"(*state.Cluster).AckPods":                     "pod bookkeeping",
					"(*state.Cluster).NominateNodeForPod":          "node nominations (named by the property)",
				})
		}},
		CONE{ID: "C18.CONE5", Roots: []string{"(*prov.Provisioner).Schedule"}, MinSize: 300, Forbidden: []string{
			`^(call|go|defer) iface:\(cr/client\.(Writer|StatusWriter|SubResourceWriter)\)\.`,
			`^(call|go|defer) iface:\(cloudprovider\.CloudProvider\)\.(Create|Delete)\(`,
			`^(call|go|defer) \(\*prov\.Provisioner\)\.(Create|CreateNodeClaims)\(`,
		}},

		// ---- copies
		core.Custom{ID: "C18.PROV1", Kind: "PROV", Run: func(w *core.World, id string) []core.Result {
			rs := core.ArgProvenance(w, id, "disr.SimulateScheduling", `^call \(\*prov\.Provisioner\)\.NewScheduler\(`, 3,
				`^lo\.Filter\[\*state\.StateNode, state\.StateNodes\]\(\(state\.StateNodes\)\.Active\(\(\*state\.Cluster\)\.DeepCopyNodes\(\$2\)\), closure:`, "the simulation schedules onto deep copies of the active state nodes")
			rs = append(rs, core.ArgProvenance(w, id, "(*prov.Provisioner).Schedule", `^call \(\*prov\.Provisioner\)\.NewScheduler\(`, 3,
				`^\(state\.StateNodes\)\.Active\(\(\*state\.Cluster\)\.DeepCopyNodes\(\$0\.cluster\)\)$`, "provisioning schedules onto deep copies of the active state nodes")...)
			rs = append(rs, core.InstrPresent(w, id, "PROV", "(*state.Cluster).DeepCopyNodes", `^call lo\.Map\[\*state\.StateNode, \*state\.StateNode\]\(lo\.Values\[string, \*state\.StateNode\]\(&local<\[1\]map\[string\]\*state\.StateNode>\[:\]\), fn:\(\*state\.Cluster\)\.DeepCopyNodes\$1\)$`, 1, "DeepCopyNodes maps every node")...)
			rs = append(rs, core.InstrPresent(w, id, "PROV", "(*state.Cluster).DeepCopyNodes", `^return \(\*state\.StateNode\)\.DeepCopy\(\$0\)$`, 1, "through StateNode.DeepCopy")...)
			// …and nothing else: no node (marked for deletion or not) is handed out as the live object
			if mapper := w.Fn("@arg:(*state.Cluster).DeepCopyNodes|^call lo\\.Map\\[\\*state\\.StateNode, \\*state\\.StateNode\\]\\(|1"); mapper != nil {
				for _, sk := range w.ReturnSinks(mapper, core.RetAny) {
					if r := w.RenderInstr(sk.Ret); r != "return (*state.StateNode).DeepCopy($0)" {
						rs = append(rs, core.Bad(id, "PROV", "PROV:(*state.Cluster).DeepCopyNodes:every-node", w.InstrPos(sk.Ret), "DeepCopyNodes hands out `"+clipStr(r, 80)+"` for some nodes: the snapshot shares a live StateNode with cluster state"))
					}
				}
			} else {
				rs = append(rs, core.Bad(id, "PROV", "PROV:(*state.Cluster).DeepCopyNodes:every-node", "", "the per-node mapping function of DeepCopyNodes cannot be resolved"))
			}
			// the scheduler's existing nodes wrap exactly the nodes it was given
			rs = append(rs, core.ArgProvenance(w, id, "sched.NewScheduler", `^call \(\*sched\.Scheduler\)\.calculateExistingNodeClaims\(`, 2, `^\$4$`, "existing nodes are built from the state nodes handed in")...)
			return rs
		}},
		core.Custom{ID: "C18.COPY1", Kind: "COPY", Run: c11DeepCopy},
		// other ways of obtaining live state nodes: Cluster.Nodes() iterates the live StateNodes
		core.Custom{ID: "C18.CONE6", Kind: "CONE", Run: c18LiveNodes},

		// ---- provider objects
		core.Custom{ID: "C18.WSET1", Kind: "WSET", Run: c18ProviderStores},
		core.Custom{ID: "C18.WSET2", Kind: "WSET", Run: c18OptionSlices},
		// ---- Node objects: the scheduler only ever reads Nodes (of its deep copies, and — through the pod-affinity
		// callbacks of Cluster — of the live cluster state), so nothing in the cone writes through a corev1.Node
		core.Custom{ID: "C18.WSET5", Kind: "WSET", Run: c18NodeObjects},
		core.Custom{ID: "C18.WSET3", Kind: "WSET", Run: c18CacheAliases},
		// ---- capacity buffer pods (F9) and relaxation copy
		WMC{ID: "C18.WSET4a", Sink: `^(call|go|defer) \(\*state/virtualpods\.Cache\)\.GetAll\(`, Allowed: []string{"(*prov.Provisioner).GetPendingPods"}, Required: []string{"(*prov.Provisioner).GetPendingPods"}},
		core.Custom{ID: "C18.WSET4", Kind: "WSET", Run: func(w *core.World, id string) []core.Result {
			const gpp = "(*prov.Provisioner).GetPendingPods"
			fn := w.Fn(gpp)
			if fn == nil {
				return []core.Result{core.Anchor(id, "WSET", gpp)}
			}
			var out []core.Result
			for _, s := range w.Sites(fn, regexp.MustCompile(`^call \(\*state/virtualpods\.Cache\)\.GetAll\(`), true) {
				refs := s.(*ssa.Call).Referrers()
				for _, r := range *refs {
					rr := w.RenderInstr(r)
					if !strings.HasPrefix(rr, "call lo.Map[*corev1.Pod, *corev1.Pod]((*state/virtualpods.Cache).GetAll(") {
						out = append(out, core.Bad(id, "WSET", "WSET:"+gpp+":virtual-pods", w.InstrPos(r), "the cache's own pod objects (read-only by contract) escape into scheduling through `"+clipStr(rr, 100)+"` — scheduler construction writes into the pods it is given"))
					}
				}
			}
			f := w.Fn("@arg:" + gpp + `|^call lo\.Map\[\*corev1\.Pod, \*corev1\.Pod\]\(\(\*state/virtualpods\.Cache\)\.GetAll\(|1`)
			if f == nil || len(w.SitesOr(f, regexp.MustCompile(`^return \(\*corev1\.Pod\)\.DeepCopy\(\$0\)$`), false, 1)) == 0 {
				out = append(out, core.Bad(id, "WSET", "WSET:"+gpp+":virtual-pods", w.Pos(fn.Pos()), "virtual pods are not deep-copied before being scheduled"))
			}
			if len(out) == 0 {
				out = append(out, core.OK(id, "WSET", "WSET:"+gpp+":virtual-pods", 1, "virtual pods are copied at the consumer"))
			}
			return out
		}},
		// ---- alias-aware write scans (round 4)
		// the accessors of cluster state that a simulation calls (ForPodsWithAntiAffinity, Nodes, ForEachNode-style
		// iterators, NodePoolState readers …) only read: nothing under the cone modifies memory reached through a field of
		// Cluster / NodePoolState — wherever the write sits (method body, closure handed to sync.Map.Range, helper function)
		core.Custom{ID: "C18.WSET6", Kind: "WSET", Run: c18ClusterMemory},
		// scratch arithmetic of a simulation is done on private maps: an in-place adjustment in the cone never lands in a
		// map that may be (an alias of) a provider catalogue field, also when the map went through a helper's result or a phi
		core.Custom{ID: "C18.WSET7", Kind: "WSET", Run: c18ProviderAliases},
		// …which rests on the ResourceList helpers handing back fresh maps, never (part of) an argument
		core.Custom{ID: "C18.RET1", Kind: "RET", Run: c18FreshResourceLists},
		core.Custom{ID: "C18.PROV2", Kind: "PROV", Run: func(w *core.World, id string) []core.Result {
			return core.ArgProvenance(w, id, "(*sched.Scheduler).Solve", `^call \(\*sched\.Scheduler\)\.trySchedule\(`, 2, `^\(\*corev1\.Pod\)\.DeepCopy\(`, "the pod that relaxation mutates is a DeepCopy of the queued pod")
		}},
	}
}

// c18StateWriters: no derived writer method of Cluster / NodePoolState is called in the cone, except the allowed ones.
func c18StateWriters(w *core.World, id string, rootNames []string, allowed map[string]string) []core.Result {
	var roots []*ssa.Function
	for _, n := range rootNames {
		f := w.Fn(n)
		if f == nil {
			return []core.Result{core.Anchor(id, "CONE", n)}
		}
		roots = append(roots, f)
	}
	all := w.ReceiverWriters("state.Cluster", "state.NodePoolState", "state.StateNode", "scheduling.HostPortUsage", "scheduling.VolumeUsage")
	// only writes to the shared cluster objects matter here; StateNode methods run on the scheduler's deep copies (C18.PROV1)
	writers := map[*ssa.Function]string{}
	for f, why := range all {
		if n := core.FnName(f); strings.HasPrefix(n, "(*state.Cluster).") || strings.HasPrefix(n, "(*state.NodePoolState).") {
			writers[f] = why
		}
	}
	if len(writers) < 30 {
		return []core.Result{core.Bad(id, "CONE", "CONE:state-writers", "", fmt.Sprintf("vacuous: only %d writer methods derived", len(writers)))}
	}
	// the allowed writers are not expanded: what they do is the allowed effect
	parent, order := w.Cone(roots, func(f *ssa.Function) bool { _, ok := allowed[core.FnName(f)]; return ok })
	construct := "CONE:" + strings.Join(rootNames, ",") + "↛state-writers"
	var out []core.Result
	reached := map[string]bool{}
	for _, f := range order {
		if _, ok := allowed[core.FnName(f)]; ok {
			reached[core.FnName(f)] = true
			continue
		}
		if why, isW := writers[f]; isW {
			// a writer is only a problem when it is *called* from a non-writer in the cone; report at the function
			out = append(out, core.Bad(id, "CONE", construct+"@"+core.FnName(f), w.Pos(f.Pos()),
				fmt.Sprintf("%s writes cluster state (%s) and is reachable: %s", core.FnName(f), why, core.PathTo(parent, f))))
		}
	}
	if len(out) == 0 {
		var r []string
		for k := range reached {
			r = append(r, k)
		}
		sort.Strings(r)
		out = append(out, core.OK(id, "CONE", construct, len(order), fmt.Sprintf("cone of %d functions; %d derived writer methods, reached (allowed): %v", len(order), len(writers), r)))
	}
	return out
}

func coneFns(w *core.World, rootNames []string) ([]*ssa.Function, map[*ssa.Function]*ssa.Function, string) {
	var roots []*ssa.Function
	for _, n := range rootNames {
		f := w.Fn(n)
		if f == nil {
			return nil, nil, n
		}
		roots = append(roots, f)
	}
	parent, order := w.Cone(roots, nil)
	return order, parent, ""
}

// C18.WSET1: no field of a provider catalogue struct is stored to in the cone.
func c18ProviderStores(w *core.World, id string) []core.Result {
	order, parent, missing := coneFns(w, append(append([]string{}, c18Roots...), c18SolveRoots...))
	if missing != "" {
		return []core.Result{core.Anchor(id, "WSET", missing)}
	}
	typs := map[string]bool{"cloudprovider.InstanceType": true, "cloudprovider.Offering": true, "cloudprovider.InstanceTypeOverhead": true}
	audited := map[string]string{
		"(*cloudprovider.InstanceType).precompute": "sync.Once-guarded memo of derived allocatable values; idempotent, not observable through the exported API",
	}
	var out []core.Result
	n := 0
	inCone := map[*ssa.Function]bool{}
	for _, f := range order {
		inCone[f] = true
	}
	for _, in := range w.StructFieldStores(order, typs) {
		n++
		name := core.FnName(core.RootFn(in.Parent()))
		if _, ok := audited[name]; ok {
			continue
		}
		// a mutator that writes through a parameter is harmless when every call in the cone hands it a freshly
		// allocated object (copy-on-write in the overlay decorator)
		if c18FreshAtCallers(w, in, inCone) {
			continue
		}
		out = append(out, core.Bad(id, "WSET", "WSET:provider-objects@"+name, w.InstrPos(in),
			fmt.Sprintf("a simulation can modify the cloud provider's catalogue: `%s` in %s (reached via %s)", clipStr(w.RenderInstr(in), 100), name, core.PathTo(parent, in.Parent()))))
	}
	// positive control: the scan sees the known mutators outside the cone
	all := w.StructFieldStores(w.Fns, typs)
	ctl := false
	for _, in := range all {
		if core.FnName(in.Parent()) == "(*cloudprovider.Offering).ApplyPriceOverlay" {
			ctl = true
		}
	}
	if !ctl {
		out = append(out, core.Bad(id, "WSET", "WSET:provider-objects:control", "", "control-missed: the scan no longer recognises the known mutator Offering.ApplyPriceOverlay (analyzer broken)"))
	}
	if len(out) == 0 {
		out = append(out, core.OK(id, "WSET", "WSET:provider-objects", n, fmt.Sprintf("cone of %d functions: %d store(s) into provider structs, all in the audited memo", len(order), n)))
	}
	return out
}

// C18.WSET2: InstanceTypeOptions only ever receives freshly built slices; the provider's map entries are never sorted or written in place.
func c18OptionSlices(w *core.World, id string) []core.Result {
	allowedRHS := regexp.MustCompile(`^(` + strings.Join([]string{
		`sched\.filterInstanceTypesByRequirements\(.*\)#0`,
		`lo\.(Filter|Slice|Reject)\[\*cloudprovider\.InstanceType, cloudprovider\.InstanceTypes\]\(`,
		`\(cloudprovider\.InstanceTypes\)\.(Compatible|Truncate)\(`,
		`\(cloudprovider\.InstanceTypes\)\.OrderByPrice\(.*\.InstanceTypeOptions, `, // sorts the claim's own slice
		`\$\d+`, // parameters: checked at the call sites below
	}, "|") + `)`)
	re := regexp.MustCompile(`^store .*\.InstanceTypeOptions = (.*)$`)
	var out []core.Result
	n := 0
	for _, fn := range w.Fns {
		if core.IsTestSupport(fn) {
			continue
		}
		for _, s := range w.Sites(fn, re, false) {
			n++
			rhs := re.FindStringSubmatch(w.RenderInstr(s))[1]
			if !allowedRHS.MatchString(rhs) {
				out = append(out, core.Bad(id, "WSET", "WSET:InstanceTypeOptions@"+core.FnName(core.RootFn(fn)), w.InstrPos(s),
					"InstanceTypeOptions is assigned `"+clipStr(rhs, 120)+"`: only freshly filtered/sliced lists may be stored, because the options are later sorted in place (OrderByPrice) and a provider-owned slice would be reordered"))
			}
		}
	}
	if n < 6 {
		out = append(out, core.Bad(id, "WSET", "WSET:InstanceTypeOptions", "", fmt.Sprintf("vacuous: %d writers of InstanceTypeOptions, 9 confirmed by hand", n)))
	}
	// parameters feeding those stores
	for _, r := range core.ArgProvenance(w, id, "(*sched.Scheduler).addToInflightNode", `^call \(\*sched\.NodeClaim\)\.Add\(`, 5, `^&local<\[\]\*cloudprovider\.InstanceType>$|CanAdd\(.*\)#1`, "NodeClaim.Add receives the instance types CanAdd filtered") {
		if r.Status != core.Discharged {
			out = append(out, r)
		}
	}
	// no in-place operation on the provider's per-NodePool instance type lists inside the scheduler
	for _, fname := range []string{"sched.NewScheduler", "(*prov.Provisioner).NewScheduler", "sched.NewTopology", "sched.buildDaemonOverheadGroups", "sched.NewReservationManager"} {
		fn := w.Fn(fname)
		if fn == nil {
			out = append(out, core.Anchor(id, "WSET", fname))
			continue
		}
		bad := regexp.MustCompile(`^call (sort\.\w+|slices\.(Sort|Reverse)\w*|\(cloudprovider\.InstanceTypes\)\.(OrderByPrice|Truncate))\(.*(\^?\$6\[|makemap<map\[string\]\[\]\*cloudprovider\.InstanceType>|GetInstanceTypes\()`)
		for _, s := range w.Sites(fn, bad, true) {
			out = append(out, core.Bad(id, "WSET", "WSET:provider-slices@"+fname, w.InstrPos(s), "the provider's instance-type list is reordered in place: `"+clipStr(w.RenderInstr(s), 120)+"`"))
		}
	}
	if len(out) == 0 {
		out = append(out, core.OK(id, "WSET", "WSET:InstanceTypeOptions", n, fmt.Sprintf("%d writers, all fresh slices; provider lists never sorted in place", n)))
	}
	return out
}

// C18.WSET3: informer-cache aliases in the cone.
func c18CacheAliases(w *core.World, id string) []core.Result {
	order, parent, missing := coneFns(w, append(append([]string{}, c18Roots...), c18SolveRoots...))
	if missing != "" {
		return []core.Result{core.Anchor(id, "WSET", missing)}
	}
	// audited object kinds: each is read uncopied only to derive a label selector, and the derived selector never aliases
	// the input (maps.Clone / requirementsFrom / DeepCopy). Keyed by the kind read, not by the reading function's name.
	audited := map[string]string{
		"corev1.ServiceList":             "services are only read for Spec.Selector; the selector is copied before it is stamped on a pod",
		"corev1.ReplicationController":   "only Spec.Selector is read and maps.Clone'd",
		"k8s.io/api/apps/v1.ReplicaSet":  "only Spec.Selector is read, flattened by requirementsFrom into fresh values",
		"k8s.io/api/apps/v1.StatefulSet": "only Spec.Selector is read, flattened by requirementsFrom into fresh values",
	}
	var out []core.Result
	found := map[string]int{}
	for _, f := range order {
		for _, b := range f.Blocks {
			for _, in := range b.Instrs {
				st, ok := in.(*ssa.Store)
				if !ok {
					continue
				}
				vt := st.Val.Type().String()
				if mi, ok := st.Val.(*ssa.MakeInterface); ok {
					vt = mi.X.Type().String()
				}
				if !strings.Contains(strings.ToLower(vt), "unsafedisabledeepcopy") {
					continue
				}
				name := core.FnName(core.RootFn(f))
				kind := c18UncopiedKind(w, st)
				if kind == "" {
					out = append(out, core.Result{ID: id, Kind: "WSET", Construct: "WSET:cache-alias@" + name, Status: core.Undecided, Pos: w.InstrPos(in),
						Msg: "an UnsafeDisableDeepCopy option is built here but the Get/List call it is passed to (and so the kind read) could not be resolved"})
					continue
				}
				found[kind]++
				if _, ok := audited[kind]; !ok {
					out = append(out, core.Bad(id, "WSET", "WSET:cache-alias:"+kind+"@"+name, w.InstrPos(in),
						fmt.Sprintf("%s reads %s from the informer cache without deep copy inside a simulation (reached via %s): objects obtained there alias shared memory and must be classified", name, kind, core.PathTo(parent, f))))
				}
			}
		}
	}
	// no store through the aliased kinds anywhere in the cone
	typs := map[string]bool{"corev1.Service": true, "corev1.ServiceSpec": true, "k8s.io/api/apps/v1.ReplicaSet": true, "k8s.io/api/apps/v1.StatefulSet": true, "corev1.ReplicationController": true,
		"k8s.io/api/apps/v1.ReplicaSetSpec": true, "k8s.io/api/apps/v1.StatefulSetSpec": true, "corev1.ReplicationControllerSpec": true, "metav1.LabelSelector": true}
	for _, in := range w.StructFieldStores(order, typs) {
		name := core.FnName(core.RootFn(in.Parent()))
		if strings.Contains(name, "DeepCopy") {
			continue
		}
		out = append(out, core.Bad(id, "WSET", "WSET:cache-alias-store@"+name, w.InstrPos(in), "a store through an object kind that the simulation reads from the informer cache without copying: `"+clipStr(w.RenderInstr(in), 100)+"`"))
	}
	if len(out) == 0 {
		var fs []string
		for k, v := range found {
			fs = append(fs, fmt.Sprintf("%s×%d", k, v))
		}
		sort.Strings(fs)
		out = append(out, core.OK(id, "WSET", "WSET:cache-alias", len(found), fmt.Sprintf("uncopied cache reads in the cone: %v (audited); no stores through those kinds", fs)))
	}
	return out
}

// c18FreshAtCallers: the store goes through a parameter of its function, and at every call site inside the cone the
// corresponding argument is a fresh allocation of the caller.
func c18FreshAtCallers(w *core.World, in ssa.Instruction, inCone map[*ssa.Function]bool) bool {
	var addr ssa.Value
	switch x := in.(type) {
	case *ssa.Store:
		addr = x.Addr
	case *ssa.MapUpdate:
		addr = x.Map
	default:
		return false
	}
	root, _ := w.AddrRoot(addr)
	p, ok := root.(*ssa.Parameter)
	if !ok {
		return false
	}
	fn := p.Parent()
	pi := -1
	for i, q := range fn.Params {
		if q == p {
			pi = i
		}
	}
	ncalls := 0
	for caller := range inCone {
		for _, b := range caller.Blocks {
			for _, ci := range b.Instrs {
				call, ok := ci.(ssa.CallInstruction)
				if !ok || call.Common().StaticCallee() != fn {
					continue
				}
				ncalls++
				args := call.Common().Args
				if pi >= len(args) {
					return false
				}
				r, _ := w.AddrRoot(args[pi])
				if _, fresh := r.(*ssa.Alloc); !fresh {
					return false
				}
			}
		}
	}
	return ncalls > 0
}

// C18.CONE6: uses of Cluster.Nodes() (live state nodes) inside the cone are the audited read-only ones.
func c18LiveNodes(w *core.World, id string) []core.Result {
	order, parent, missing := coneFns(w, append(append([]string{}, c18Roots...), c18SolveRoots...))
	if missing != "" {
		return []core.Result{core.Anchor(id, "CONE", missing)}
	}
	audited := map[string]string{"sched.NewScheduler": "collects the names of nodes marked for deletion (MarkedForDeletion/Name only), under the cluster read lock"}
	re := regexp.MustCompile(`^(call|go|defer) \(\*state\.Cluster\)\.Nodes\(`)
	var out []core.Result
	n := 0
	stWriters := w.ReceiverWriters("state.StateNode", "scheduling.HostPortUsage", "scheduling.VolumeUsage")
	for _, f := range order {
		for _, s := range w.Sites(f, re, false) {
			n++
			name := core.FnName(core.RootFn(f))
			if _, ok := audited[name]; !ok {
				out = append(out, core.Bad(id, "CONE", "CONE:live-nodes@"+name, w.InstrPos(s), "a simulation iterates the live (not copied) state nodes in "+name+" via "+core.PathTo(parent, f)))
				continue
			}
			// the loop bodies of the audited function: no StateNode writer is called and nothing is stored through a StateNode
			root := core.RootFn(f)
			for _, g := range core.WithClosures(root) {
				if !strings.Contains(g.Synthetic, "range-over-func") {
					continue
				}
				for _, b := range g.Blocks {
					for _, in := range b.Instrs {
						if ci, ok := in.(ssa.CallInstruction); ok {
							if callee := ci.Common().StaticCallee(); callee != nil {
								if _, isW := stWriters[callee]; isW {
									out = append(out, core.Bad(id, "CONE", "CONE:live-nodes@"+name, w.InstrPos(in), "a live state node is mutated inside the iteration: "+core.FnName(callee)))
								}
							}
						}
					}
				}
				for _, in := range w.StructFieldStores([]*ssa.Function{g}, map[string]bool{"state.StateNode": true}) {
					out = append(out, core.Bad(id, "CONE", "CONE:live-nodes@"+name, w.InstrPos(in), "a field of a live state node is written inside the iteration"))
				}
			}
		}
	}
	if len(out) == 0 {
		out = append(out, core.OK(id, "CONE", "CONE:live-nodes", n, fmt.Sprintf("%d use(s) of Cluster.Nodes() in the cone, audited read-only", n)))
	}
	return out
}

// c18UncopiedKind resolves the object kind read by the client Get/List call that receives the option slice the store fills.
func c18UncopiedKind(w *core.World, st *ssa.Store) string {
	ia, ok := st.Addr.(*ssa.IndexAddr)
	if !ok {
		return ""
	}
	for _, b := range st.Parent().Blocks {
		for _, in := range b.Instrs {
			call, ok := in.(ssa.CallInstruction)
			if !ok {
				continue
			}
			c := call.Common()
			uses := false
			for _, a := range c.Args {
				if sl, ok := a.(*ssa.Slice); ok && sl.X == ia.X {
					uses = true
				}
			}
			if !uses {
				continue
			}
			for _, a := range c.Args {
				mi, ok := a.(*ssa.MakeInterface)
				if !ok {
					continue
				}
				if pt, ok := mi.X.Type().(*types.Pointer); ok {
					if _, ok := pt.Elem().Underlying().(*types.Struct); ok {
						return core.TypeStr(pt.Elem())
					}
				}
			}
		}
	}
	return ""
}

// c18NodeObjects: no store / map update / in-place mutation through a corev1.Node anywhere in the simulation cone.
func c18NodeObjects(w *core.World, id string) []core.Result {
	order, parent, missing := coneFns(w, append(append([]string{}, c18Roots...), c18SolveRoots...))
	if missing != "" {
		return []core.Result{core.Anchor(id, "WSET", missing)}
	}
	typs := map[string]bool{"corev1.Node": true}
	var out []core.Result
	for _, in := range w.StructFieldStores(order, typs) {
		name := core.FnName(core.RootFn(in.Parent()))
		out = append(out, core.Bad(id, "WSET", "WSET:node-objects@"+name, w.InstrPos(in),
			fmt.Sprintf("a simulation writes into a Node object (cluster state hands out its live Nodes to the affinity callbacks): `%s` in %s (reached via %s)", clipStr(w.RenderInstr(in), 100), name, core.PathTo(parent, in.Parent()))))
	}
	// positive control: the scan sees a known Node writer outside the cone
	ctl := 0
	for _, in := range w.StructFieldStores(w.Fns, typs) {
		if !core.IsTestSupport(in.Parent()) {
			ctl++
		}
	}
	if ctl < 3 {
		out = append(out, core.Bad(id, "WSET", "WSET:node-objects:control", "", fmt.Sprintf("control-missed: only %d Node writers found in the whole program (termination / registration write Nodes) — analyzer broken", ctl)))
	}
	if len(out) == 0 {
		out = append(out, core.OK(id, "WSET", "WSET:node-objects", len(order), fmt.Sprintf("cone of %d functions: no write through a corev1.Node (%d writers exist outside the cone)", len(order), ctl)))
	}
	return out
}

// c18SimAllowed: the pod bookkeeping a simulation may do in cluster state (same list as C18.CONE3).
var c18SimAllowed = map[string]string{
	"(*state.Cluster).MarkPodSchedulingDecisions":  "pod bookkeeping named by the property",
	"(*state.Cluster).UpdatePodToNodeClaimMapping": "pod bookkeeping named by the property",
	"(*state.Cluster).AckPods":                     "pod bookkeeping (first-seen timestamps)",
}

// C18.WSET6: no instruction under the simulation cone modifies memory reached through a field of Cluster / NodePoolState.
func c18ClusterMemory(w *core.World, id string) []core.Result {
	var roots []*ssa.Function
	for _, n := range append(append([]string{}, c18Roots...), c18SolveRoots...) {
		f := w.Fn(n)
		if f == nil {
			return []core.Result{core.Anchor(id, "WSET", n)}
		}
		roots = append(roots, f)
	}
	isAllowed := func(f *ssa.Function) bool { _, ok := c18SimAllowed[core.FnName(core.RootFn(f))]; return ok }
	parent, order := w.Cone(roots, isAllowed)
	var fns []*ssa.Function
	accessors := map[string]bool{}
	for _, f := range order {
		if isAllowed(f) {
			continue
		}
		fns = append(fns, f)
		if n := core.FnName(core.RootFn(f)); strings.HasPrefix(n, "(*state.Cluster).") || strings.HasPrefix(n, "(*state.NodePoolState).") {
			accessors[n] = true
		}
	}
	typs := map[string]bool{"state.Cluster": true, "state.NodePoolState": true}
	recvW := w.ReceiverWriters("state.Cluster", "state.NodePoolState", "state.StateNode", "scheduling.HostPortUsage", "scheduling.VolumeUsage")
	var out []core.Result
	hits, scanned, _ := w.SharedWrites(fns, typs, recvW)
	for _, h := range hits {
		name := core.FnName(core.RootFn(h.Instr.Parent()))
		if h.Exhausted {
			out = append(out, core.Result{ID: id, Kind: "WSET", Construct: "WSET:cluster-memory@" + name, Status: core.Undecided, Pos: w.InstrPos(h.Instr),
				Msg: "the origin of the memory modified by `" + clipStr(w.RenderInstr(h.Instr), 100) + "` could not be traced within the bound"})
			continue
		}
		out = append(out, core.Bad(id, "WSET", "WSET:cluster-memory@"+name, w.InstrPos(h.Instr),
			fmt.Sprintf("a simulation modifies cluster state: `%s` (%s) in %s writes memory reached through %s.%s; the accessors a simulation calls must only read (reached via %s)",
				clipStr(w.RenderInstr(h.Instr), 100), h.How, name, h.Via.Struct, h.Via.Field, core.PathTo(parent, h.Instr.Parent()))))
	}
	const minAccessors = 4
	if len(accessors) < minAccessors {
		out = append(out, core.Bad(id, "WSET", "WSET:cluster-memory", "", fmt.Sprintf("vacuous: only %d Cluster / NodePoolState methods are reached by the simulation cone, %d confirmed by hand", len(accessors), minAccessors)))
	}
	// positive control: over the whole of package state the same scan recognises the known mutators, including a
	// sync.Map mutation and a write that sits in a closure
	var stateFns []*ssa.Function
	for _, f := range w.Fns {
		if n := core.FnName(core.RootFn(f)); strings.HasPrefix(n, "(*state.Cluster).") || strings.HasPrefix(n, "(*state.NodePoolState).") {
			stateFns = append(stateFns, f)
		}
	}
	ctl, _, _ := w.SharedWrites(stateFns, typs, nil)
	ctlFns, ctlSync, ctlClosure := map[string]bool{}, 0, 0
	for _, h := range ctl {
		ctlFns[core.FnName(core.RootFn(h.Instr.Parent()))] = true
		if strings.Contains(h.How, "sync.Map") {
			ctlSync++
		}
		if h.Instr.Parent().Parent() != nil {
			ctlClosure++
		}
	}
	if len(ctlFns) < 25 || ctlSync < 10 || ctlClosure < 1 {
		out = append(out, core.Bad(id, "WSET", "WSET:cluster-memory:control", "", fmt.Sprintf("control-missed: the scan recognises only %d mutating methods of Cluster / NodePoolState (%d sync.Map mutations, %d inside closures) — analyzer broken", len(ctlFns), ctlSync, ctlClosure)))
	}
	if len(out) == 0 {
		out = append(out, core.OK(id, "WSET", "WSET:cluster-memory", len(accessors), fmt.Sprintf("cone of %d functions, %d in-place writes examined: none reaches memory of Cluster / NodePoolState; %d accessor methods reached: %v (control: %d mutators recognised outside, %d sync.Map, %d in closures)",
			len(fns), scanned, len(accessors), sortedKeys(accessors), len(ctlFns), ctlSync, ctlClosure)))
	}
	return out
}

func sortedKeys(m map[string]bool) []string {
	var out []string
	for k := range m {
		out = append(out, k)
	}
	sort.Strings(out)
	return out
}

// C18.WSET7: in-place writes under the cone whose target may alias provider catalogue memory.
func c18ProviderAliases(w *core.World, id string) []core.Result {
	order, parent, missing := coneFns(w, append(append([]string{}, c18Roots...), c18SolveRoots...))
	if missing != "" {
		return []core.Result{core.Anchor(id, "WSET", missing)}
	}
	typs := map[string]bool{"cloudprovider.InstanceType": true, "cloudprovider.Offering": true, "cloudprovider.InstanceTypeOverhead": true}
	audited := map[string]string{
		"(*cloudprovider.InstanceType).precompute": "sync.Once-guarded memo of derived allocatable values (same entry as C18.WSET1)",
	}
	inCone := map[*ssa.Function]bool{}
	for _, f := range order {
		inCone[f] = true
	}
	var out []core.Result
	hits, scanned, viaCalls := w.SharedWrites(order, typs, nil)
	for _, h := range hits {
		name := core.FnName(core.RootFn(h.Instr.Parent()))
		if _, ok := audited[name]; ok {
			continue
		}
		if c18FreshAtCallers(w, h.Instr, inCone) {
			continue
		}
		if h.Exhausted {
			out = append(out, core.Result{ID: id, Kind: "WSET", Construct: "WSET:provider-aliases@" + name, Status: core.Undecided, Pos: w.InstrPos(h.Instr),
				Msg: "the origin of the memory modified by `" + clipStr(w.RenderInstr(h.Instr), 100) + "` could not be traced within the bound"})
			continue
		}
		through := ""
		if len(h.Via.Thru) > 0 {
			through = ", handed back by " + strings.Join(h.Via.Thru, " → ") + " (helper#parameter)"
		} else if len(h.Via.Calls) > 0 {
			through = ", returned by " + strings.Join(h.Via.Calls, " → ")
		}
		out = append(out, core.Bad(id, "WSET", "WSET:provider-aliases@"+name, w.InstrPos(h.Instr),
			fmt.Sprintf("a simulation can modify the cloud provider's catalogue: `%s` (%s) in %s modifies in place a value that may be %s.%s%s (reached via %s)",
				clipStr(w.RenderInstr(h.Instr), 100), h.How, name, h.Via.Struct, h.Via.Field, through, core.PathTo(parent, h.Instr.Parent()))))
	}
	if viaCalls < 5 {
		out = append(out, core.Bad(id, "WSET", "WSET:provider-aliases", "", fmt.Sprintf("vacuous: only %d of %d in-place writes in the cone were traced through a helper's result", viaCalls, scanned)))
	}
	if len(out) == 0 {
		out = append(out, core.OK(id, "WSET", "WSET:provider-aliases", viaCalls, fmt.Sprintf("cone of %d functions: %d in-place writes examined (%d traced through helper results), none may alias a provider catalogue field", len(order), scanned, viaCalls)))
	}
	return out
}

// C18.RET1: every function of utils/resources that returns a ResourceList returns a fresh map.
func c18FreshResourceLists(w *core.World, id string) []core.Result {
	var out []core.Result
	n := 0
	for _, fn := range w.Fns {
		if fn.Parent() != nil || fn.Synthetic != "" || core.FnPkg(fn) != "utils/resources" || len(fn.Blocks) == 0 {
			continue
		}
		res := fn.Signature.Results()
		for i := 0; i < res.Len(); i++ {
			if core.TypeStr(res.At(i).Type()) != "corev1.ResourceList" {
				continue
			}
			n++
			name := core.FnName(fn)
			inPlace := w.ParamWrites(fn)
			for _, b := range fn.Blocks {
				if len(b.Instrs) == 0 {
					continue
				}
				ret, ok := b.Instrs[len(b.Instrs)-1].(*ssa.Return)
				if !ok || i >= len(ret.Results) {
					continue
				}
				r := w.AliasOrigins(core.ResolveRet(ret, i))
				if r.Exhausted {
					out = append(out, core.Result{ID: id, Kind: "RET", Construct: "RET:fresh-result@" + name, Status: core.Undecided, Pos: w.InstrPos(ret), Msg: "the origin of the returned ResourceList could not be traced within the bound"})
					continue
				}
				for _, l := range r.Leaves {
					if l.Fresh {
						continue
					}
					// an explicit in-place API (the function also writes into that parameter, as MergeInto does with its
					// destination) may hand the parameter back: its call sites are policed by the write scans
					if p, ok := l.V.(*ssa.Parameter); ok && p.Parent() == fn {
						pi := -1
						for k, q := range fn.Params {
							if q == p {
								pi = k
							}
						}
						if inPlace[pi] {
							continue
						}
					}
					out = append(out, core.Bad(id, "RET", "RET:fresh-result@"+name, w.InstrPos(ret),
						fmt.Sprintf("%s can return (memory of) `%s` instead of a fresh ResourceList (`%s`): callers adjust the result in place (InstanceType.computeAllocatable, RequestsForPods, the scheduler's remaining-resource arithmetic), which would then write into the caller's input — e.g. the provider's InstanceType.Capacity",
							name, clipStr(w.Render(l.V), 60), clipStr(w.RenderInstr(ret), 80))))
				}
			}
		}
	}
	if n < 7 {
		out = append(out, core.Bad(id, "RET", "RET:fresh-result", "", fmt.Sprintf("vacuous: %d ResourceList-returning functions found in utils/resources, 8 confirmed by hand", n)))
	}
	if len(out) == 0 {
		out = append(out, core.OK(id, "RET", "RET:fresh-result", n, fmt.Sprintf("%d ResourceList-returning helpers of utils/resources: every returned map is made in the function (or by a callee) — a parameter is handed back only by an in-place API that also writes into it", n)))
	}
	return out
}
