package props

import (
	"fmt"
	"go/types"
	"regexp"
	"strings"

	"kverif/core"

	"golang.org/x/tools/go/ssa"
)

func init() {
	core.Register(&core.Property{
		ID:    "C02",
		Title: "Inter-pod constraints hold in the simulated end state",
		Explanation: "The counts themselves and 'every domain the node could end up in' are runtime quantities and are NOT decided. Decided is that admission and commit are paired, cover both directions, and admit only domains that pass the documented tests: " +
			"(1) Topology.AddRequirements narrows (or fails) for every matching topology: own groups (owner) and inverse anti-affinity groups that Count the pod; pod domains come from the pod's requirements, node domains from the node's; an empty answer is an error; " +
			"(2) commit: both Add functions Record the pod with the node's taints and the very requirements CanAdd computed (the new claim registers its hostname first); Record updates every own group that Counts the pod (all possible domains for anti-affinity, the single domain otherwise) and every inverse group the pod owns; Register/Unregister reach both maps; " +
			"(3) TopologyGroup.Get dispatches every TopologyType and panics otherwise; " +
			"(4) spread: a domain enters validDomains / is returned only under count(+1 if self-selecting) − min ≤ maxSkew (hostname: min taken as 0); domainMinCount counts only domains the pod can use and forces min to 0 when those are fewer than minDomains; " +
			"(5) anti-affinity: only domains with no matching pod are offered (count == 0 / member of emptyDomains); affinity: only domains with a matching pod, or a bootstrap domain when the pod selects itself and no compatible domain has a match — and always a domain the pod's own requirements allow; " +
			"(6) relaxation and re-queueing refresh the topology (Update + updateCachedPodData) before the pod is tried again; inverse anti-affinities are seeded from every anti-affinity pod of the cluster that is not excluded.",
		NotCovered: []string{
			"that domain counts are right (seeding from the API, exclusion, inclusion policies, matchLabelKeys) — value-level",
			"'for every domain the node could end up in' when requirements have not collapsed to one domain",
			"queue-order and relaxation-order effects between pods of a batch",
			"TopologyNodeFilter.Matches and label-selector semantics",
		},
		Rules: c02Rules,
	})
}

func c02Rules(tier string) []Rule {
	rules := c02RulesBase(tier)
	// a pod update always refreshes the anti-affinity index, also when the node usage update fails (node not tracked yet)
	rules = append(rules, POST{ID: "C02.AAIDX1", Fn: "(*state.Cluster).UpdatePod", From: "", Must: []string{`^call \(\*state\.Cluster\)\.updatePodAntiAffinities\(\$0, \$2\)$`}, Note: "every path through UpdatePod updates the anti-affinity index"})
	return rules
}

func c02RulesBase(tier string) []Rule {
	const (
		tp    = "(*sched.Topology)."
		tg    = "(*sched.TopologyGroup)."
		own   = `next\(range\(\$0\.topologyGroups\)\)#2`
		inv   = `next\(range\(\$0\.inverseTopologyGroups\)\)#2`
		opts  = `scheduling\.NewRequirement\(\$0\.Key, "DoesNotExist", nil\)`
		ins   = `^call \(\*scheduling\.Requirement\)\.Insert\(` + opts + `, &local<\[1\]string>\[:\]\)$`
		skewH = `-^\$0\.maxSkew < phi\(\$0\.domains\[.*\]\|\(\$0\.domains\[.*\] \+ 1\)\)$`
		skew  = `-^\$0\.maxSkew < \(phi\(\$0\.domains\[.*\](#0)?\|\(\$0\.domains\[.*\](#0)? \+ 1\)\) - \(\*sched\.TopologyGroup\)\.domainMinCount\(\$0, \$2\)\)$`
	)
	return []Rule{
		// ---- (1) admission
		ITER{ID: "C02.ITER1", Fn: tp + "getMatchingTopologies", Loop: `+^next\(range\(\$0\.topologyGroups\)\)#0$`, Gates: gates(
			G(`instr:^call append\(`, `-^\(\*sched\.TopologyGroup\)\.IsOwnedBy\(`+own+`, \$1\.ObjectMeta\.UID\)$`),
		), Note: "every group the pod owns is matched"},
		ITER{ID: "C02.ITER2", Fn: tp + "getMatchingTopologies", Loop: `+^next\(range\(\$0\.inverseTopologyGroups\)\)#0$`, Gates: gates(
			G(`instr:^call append\(`, `-^\(\*sched\.TopologyGroup\)\.Counts\(`+inv+`, \$1, \$2, \$3, \$4\)$`),
		), Note: "every inverse anti-affinity group that counts the pod is matched — also when the pod carries the same term itself"},
		core.Custom{ID: "C02.PROV1", Kind: "PROV", Run: func(w *core.World, id string) []core.Result {
			f := tp + "getMatchingTopologies"
			rs := core.InstrPresent(w, id, "PROV", f, `^store &local<\[1\]\*sched\.TopologyGroup>\[0\] = `+own+`$`, 1, "the owned group itself is appended")
			rs = append(rs, core.InstrPresent(w, id, "PROV", f, `^store &local<\[1\]\*sched\.TopologyGroup>\[0\] = `+inv+`$`, 1, "the inverse group itself is appended")...)
			rs = append(rs, core.InstrPresent(w, id, "PROV", f, `^return phi\(phi↺\|append\(phi↺, &local<\[1\]\*sched\.TopologyGroup>\[:\]\)\|phi\(nil\|phi↺\|append\(…, …\)\)\)$`, 1, "both lists are returned")...)
			a := tp + "AddRequirements"
			rs = append(rs, core.InstrPresent(w, id, "PROV", a, `^call \(\*sched\.Topology\)\.getMatchingTopologies\(\$0, \$1, \$2, \$4, \$5\)$`, 1, "matching is evaluated for the node's requirements and taints")...)
			rs = append(rs, core.InstrPresent(w, id, "PROV", a, `^call \(scheduling\.Requirements\)\.Get\(\$3, .*\.Key\)$`, 1, "pod domains from the pod's requirements")...)
			rs = append(rs, core.InstrPresent(w, id, "PROV", a, `^call \(scheduling\.Requirements\)\.Get\(\$4, .*\.Key\)$`, 1, "node domains from the node's requirements")...)
			rs = append(rs, core.InstrPresent(w, id, "PROV", a, `^call \(\*sched\.TopologyGroup\)\.Get\(.*, \$1, phi\(\(scheduling\.Requirements\)\.Get\(\$3, .*\)\|scheduling\.NewRequirement\(.*"Exists", nil\)\), phi\(\(scheduling\.Requirements\)\.Get\(\$4, .*\)\|scheduling\.NewRequirement\(.*"Exists", nil\)\)\)$`, 1, "the group is asked with (pod, podDomains, nodeDomains)")...)
			return rs
		}},
		ITER{ID: "C02.ITER3", Fn: tp + "AddRequirements", Loop: `+^\(phi\(-1\|\(phi↺ \+ 1\)\) \+ 1\) < len\(\(\*sched\.Topology\)\.getMatchingTopologies\(.*\)\)$`, Gates: gates(
			G(`instr:^call \(scheduling\.Requirements\)\.Add\(scheduling\.NewRequirements\(\(scheduling\.Requirements\)\.Values\(\$4\)\), &local<\[1\]\*scheduling\.Requirement>\[:\]\)$`),
		), Note: "every matching topology narrows the result"},
		IMPL{ID: "C02.IMPL1", Fn: tp + "AddRequirements", Lit: `+^\(\*scheduling\.Requirement\)\.Len\(\(\*sched\.TopologyGroup\)\.Get\(.*\)#0\) == 0$`, Not: core.RetOK, Note: "no admissible domain ⇒ error"},

		// ---- (2) commit
		core.Custom{ID: "C02.PROV2", Kind: "PROV", Run: func(w *core.World, id string) []core.Result {
			rs := core.InstrPresent(w, id, "PROV", "(*sched.ExistingNode).Add", `^call \(\*sched\.Topology\)\.Record\(\$0\.topology, \$2, \$0\.cachedTaints, \$4, nil\)$`, 1, "placement on a node is recorded with the node's taints and the computed requirements")
			rs = append(rs, core.InstrPresent(w, id, "PROV", "(*sched.NodeClaim).Add", `^call \(\*sched\.Topology\)\.Record\(\$0\.topology, \$2, \$0\.NodeClaimTemplate\.NodeClaim\.Spec\.Taints, \$4, &local<\[1\]opkg/option\.Function\[scheduling\.CompatibilityOptions\]>\[:\]\)$`, 1, "placement on a new claim is recorded likewise")...)
			rs = append(rs, core.ArgProvenance(w, id, "(*sched.Scheduler).addToExistingNode", `^call \(\*sched\.ExistingNode\)\.Add\(`, 4, `^\^?\(\*sched\.ExistingNode\)\.CanAdd\(.*\)#0$`, "requirements recorded = requirements admitted")...)
			rs = append(rs, core.ArgProvenance(w, id, "(*sched.Scheduler).addToInflightNode", `^call \(\*sched\.NodeClaim\)\.Add\(`, 4, `^\^?\(\*sched\.NodeClaim\)\.CanAdd\(.*\)#0$`, "requirements recorded = requirements admitted")...)
			return rs
		}},
		DOM{ID: "C02.DOM1", Fn: "(*sched.NodeClaim).Add", Sink: `^call \(\*sched\.Topology\)\.Record\(`, Gates: gates(
			G(`instr:^call \(\*sched\.Topology\)\.Register\(\$0\.topology, "kubernetes\.io/hostname", \$0\.hostname\)$`),
		), Note: "the claim's hostname domain exists before counts are recorded"},
		ITER{ID: "C02.ITER4", Fn: tp + "Record", Loop: `+^next\(range\(\$0\.topologyGroups\)\)#0$`, Gates: gates(
			G(`instr:^call \(\*sched\.TopologyGroup\)\.Record\(`+own+`, `, `-^\(\*sched\.TopologyGroup\)\.Counts\(`+own+`, \$1, \$2, \$3, \$4\)$`,
				`-^\(\*scheduling\.Requirement\)\.Len\(\(scheduling\.Requirements\)\.Get\(\$3, `+own+`\.Key\)\) == 1$`),
		), Note: "a counting pod is recorded (unless the domain is still undetermined for spread/affinity)"},
		DOM{ID: "C02.DOM2", Fn: tp + "Record", Sink: `^call \(\*sched\.TopologyGroup\)\.Record\(` + own + `, \(\*scheduling\.Requirement\)\.Values\(`, Gates: gates(
			G(`+^` + own + `\.Type == 2$`),
		), Note: "all possible domains are blocked only for anti-affinity groups…"},
		POST{ID: "C02.POST1", Fn: tp + "Record", FromLit: `+^` + own + `\.Type == 2$`,
			Must: []string{`^call \(\*sched\.TopologyGroup\)\.Record\(` + own + `, \(\*scheduling\.Requirement\)\.Values\(\(scheduling\.Requirements\)\.Get\(\$3, next\(.*\)#2\.Key\)\)\)$`},
			Note: "…and for those it is always done, whatever the number of candidate domains"},
		ITER{ID: "C02.ITER5", Fn: tp + "Record", Loop: `+^next\(range\(\$0\.inverseTopologyGroups\)\)#0$`, Gates: gates(
			G(`instr:^call \(\*sched\.TopologyGroup\)\.Record\(`+inv+`, \(\*scheduling\.Requirement\)\.Values\(\(scheduling\.Requirements\)\.Get\(\$3, next\(.*\)#2\.Key\)\)\)$`,
				`-^\(\*sched\.TopologyGroup\)\.IsOwnedBy\(`+inv+`, \$1\.ObjectMeta\.UID\)$`),
		), Note: "a pod carrying an anti-affinity term marks every domain it may land in"},
		core.Custom{ID: "C02.REG1", Kind: "REG", Run: func(w *core.World, id string) []core.Result {
			rs := core.ConstIs(w, id, "controllers/provisioning/scheduling", "TopologyTypePodAntiAffinity", "2", "TopologyTypePodAntiAffinity")
			for _, f := range []string{"Register", "Unregister"} {
				rs = append(rs, core.InstrPresent(w, id, "REG", tp+f, `^call \(\*sched\.TopologyGroup\)\.`+f+`\(`+own+`, &local<\[1\]string>\[:\]\)$`, 1, f+" reaches the own groups")...)
				rs = append(rs, core.InstrPresent(w, id, "REG", tp+f, `^call \(\*sched\.TopologyGroup\)\.`+f+`\(`+inv+`, &local<\[1\]string>\[:\]\)$`, 1, f+" reaches the inverse groups")...)
			}
			rs = append(rs, core.InstrPresent(w, id, "REG", tg+"Record", `^mapupdate \$0\.domains\[\$1\[.*\]\] = \(\$0\.domains\[\$1\[.*\]\] \+ 1\)$`, 1, "Record increments the domain's count")...)
			rs = append(rs, core.InstrPresent(w, id, "REG", tg+"Record", `^call \(apim/util/sets\.Set\[string\]\)\.Delete\(\$0\.emptyDomains, `, 1, "…and the domain stops being empty")...)
			return rs
		}},

		// ---- (3) dispatch
		core.Custom{ID: "C02.REG2", Kind: "REG", Run: c02GetDispatch},

		// ---- (4) spread
		DOM{ID: "C02.DOM3", Fn: tg + "nextDomainTopologySpread", Sink: `^call \(apim/util/sets\.Set\[string\]\)\.Insert\(apim/util/sets\.New\[string\]\(nil\), &local<\[1\]string>\[:\]\)$`, Min: 3, Gates: gates(
			G(skewH, skew),
		), Note: "valid ⇒ count(+self) − min ≤ maxSkew"},
		core.Custom{ID: "C02.PHI1", Kind: "PROV", Run: c02SpreadChoice},
		core.Custom{ID: "C02.PHI2", Kind: "PROV", Run: c02MinCount},
		TABLE{ID: "C02.TT1", Fn: tg + "selects", Rows: [][]string{
			{`+(apim/util/sets.Set[string]).Has($0.namespaces, $1.ObjectMeta.Namespace)`, `=> iface:(apim/labels.Selector).Matches($0.selector, <apim/labels.Set>$1.ObjectMeta.Labels)`},
			{`-(apim/util/sets.Set[string]).Has($0.namespaces, $1.ObjectMeta.Namespace)`, `=> false`},
		}},

		// what a group counts: one requirement set per OR-ed node-affinity term, each built in a set of its own
		core.Custom{ID: "C02.PROV5", Kind: "PROV", Run: func(w *core.World, id string) []core.Result {
			const f = "sched.MakeTopologyNodeFilter"
			rs := core.ArgProvenanceN(w, id, f, `^call \(scheduling\.Requirements\)\.Add\(`, 0, `^scheduling\.NewRequirements\(nil\)$`, "requirements of a term are added to a fresh set, never into the shared node-selector set (OR-ed terms must not intersect each other)", 2)
			rs = append(rs, core.InstrPresent(w, id, "PROV", f, `^store &local<\[1\]scheduling\.Requirements>\[0\] = scheduling\.NewRequirements\(nil\)$`, 1, "the fresh set is what the filter keeps for the term")...)
			return rs
		}},
		// group identity: repeated selector expressions must not change the hash (Update appends matchLabelKeys again)
		core.Custom{ID: "C02.PROV6", Kind: "PROV", Run: func(w *core.World, id string) []core.Result {
			const f = "sched.hashSelector"
			rs := core.InstrPresent(w, id, "PROV", f, `^call \(apim/util/sets\.Set\[uint64\]\)\.Insert\(apim/util/sets\.New\[uint64\]\(nil\), &local<\[1\]uint64>\[:\]\)$`, 1, "expression hashes are collected in a set (duplicates collapse)")
			rs = append(rs, core.InstrPresent(w, id, "PROV", f, `^store &local<\[2\]any>\[0\] = apim/util/sets\.New\[uint64\]\(nil\)$`, 1, "…and that set is what is hashed")...)
			return rs
		}},

		// groups are memoised by hash in two maps (own and inverse): a miss in one map inserts into that same map
		core.Custom{ID: "C02.PROV7", Kind: "PROV", Run: func(w *core.World, id string) []core.Result {
			rs := core.LookupInsertSameMap(w, id, "PROV", tp+"updateInverseAntiAffinity", 1, "inverse anti-affinity groups are looked up and registered in inverseTopologyGroups")
			return append(rs, core.LookupInsertSameMap(w, id, "PROV", tp+"Update", 1, "a pod's own groups are looked up and registered in topologyGroups")...)
		}},
		// ---- (5) anti-affinity / affinity
		DOM{ID: "C02.DOM4", Fn: tg + "nextDomainAntiAffinity", Sink: ins, Min: 3, Gates: gates(
			G(`+^\$0\.domains\[\(\*scheduling\.Requirement\)\.Values\(\$2\)\[0\]\] == 0$`, `+^\(apim/util/sets\.Set\[string\]\)\.Has\(\$0\.emptyDomains, \(\*scheduling\.Requirement\)\.Values\(\$2\)\[.*\]\)$`, `+^next\(range\(\$0\.emptyDomains\)\)#0$`),
			G(`+^\$0\.Key == "kubernetes\.io/hostname"$`, `+^\(\*scheduling\.Requirement\)\.Has\(\$1, `),
		), Note: "offered ⇒ no matching pod in the domain, and (outside the single-host case) the pod itself may use it"},
		core.Custom{ID: "C02.PROV3", Kind: "PROV", Run: func(w *core.World, id string) []core.Result {
			f := tg + "nextDomainAntiAffinity"
			rs := core.InstrPresent(w, id, "PROV", f, `^store &local<\[1\]string>\[0\] = next\(range\(\$0\.emptyDomains\)\)#1$`, 1, "in the scan, the domain offered is the empty domain being visited")
			rs = append(rs, core.InstrPresent(w, id, "PROV", f, `^store &local<\[1\]string>\[0\] = \(\*scheduling\.Requirement\)\.Values\(\$2\)\[.*\]$`, 2, "otherwise it is the node domain that was tested")...)
			return rs
		}},
		DOM{ID: "C02.DOM5", Fn: tg + "nextDomainAffinity", Sink: ins, Min: 6, Gates: gates(
			// a matching pod is there, or this is the bootstrap (self-selecting ∧ (nothing placed ∨ no compatible domain has a match))
			G(`+^0 < \$0\.domains\[.*\](#0)?$`, `+^\(\*sched\.TopologyGroup\)\.selects\(\$0, \$1\)$`),
			G(`+^0 < \$0\.domains\[.*\](#0)?$`, `+^len\(\$0\.domains\) == len\(\$0\.emptyDomains\)$`, `-^\(\*sched\.TopologyGroup\)\.anyCompatiblePodDomain\(\$0, \$2\)$`),
			// and the pod's own requirements allow the domain
			G(`+^\(\*scheduling\.Requirement\)\.Has\(\$2, `, `+^\(\*scheduling\.Requirement\)\.Has\(\(\*scheduling\.Requirement\)\.Intersection\(\$2, \$3\), `),
		), Note: "offered ⇒ a match exists there, or bootstrap; always within the pod's domains"},
		MPT{ID: "C02.MPT1", Fn: tg + "anyCompatiblePodDomain", Ret: core.RetTrue, Gates: gates(
			G(`+^\(\*scheduling\.Requirement\)\.Has\(\$1, next\(range\(\$0\.domains\)\)#1\)$`), G(`+^0 < \$0\.domains\[next\(range\(\$0\.domains\)\)#1\]$`),
		)},
		MPT{ID: "C02.MPT2", Fn: tg + "anyCompatiblePodDomain", Ret: core.RetFalse, Gates: gates(G(`-^next\(range\(\$0\.domains\)\)#0$`)), Note: "'no compatible match' only after scanning every domain"},

		// ---- (6) refresh after relaxation / re-queue; seeding of inverse groups
		POST{ID: "C02.POST2", Fn: "(*sched.Scheduler).trySchedule", FromLit: `+^\(\*sched\.Preferences\)\.Relax\(\$0\.preferences, \$2\)$`,
			Must: []string{`^call \(\*sched\.Topology\)\.Update\(\$0\.topology, \$2\)$`}, Note: "a relaxed pod's topology groups are rebuilt before it is tried again"},
		POST{ID: "C02.POST3", Fn: "(*sched.Scheduler).trySchedule", FromLit: `+^\(\*sched\.Preferences\)\.Relax\(\$0\.preferences, \$2\)$`,
			Must: []string{`^call \(\*sched\.Scheduler\)\.updateCachedPodData\(\$0, \$2\)$`}, Note: "…and its cached requirements refreshed"},
		DOM{ID: "C02.DOM6", Fn: "(*sched.Scheduler).Solve", Sink: `^call \(\*sched\.Queue\)\.Push\(`, Gates: gates(
			G(`instr:^call \(\*sched\.Topology\)\.Update\(\$0\.topology, `),
			G(`instr:^call \(\*sched\.Scheduler\)\.updateCachedPodData\(\$0, `),
		), Note: "a pod is re-queued with its original constraints restored in the topology"},
		core.Custom{ID: "C02.PROV4", Kind: "PROV", Run: func(w *core.World, id string) []core.Result {
			u := tp + "updateInverseAffinities"
			rs := core.InstrPresent(w, id, "PROV", u, `^call \(\*state\.Cluster\)\.ForPodsWithAntiAffinity\(\$0\.cluster, closure:`, 1, "inverse groups are seeded from every anti-affinity pod the cluster tracks")
			return rs
		}},
		MPT{ID: "C02.MPT3", Fn: "@arg:" + tp + "updateInverseAffinities|^call \\(\\*state\\.Cluster\\)\\.ForPodsWithAntiAffinity\\(|1", Ret: core.RetAny, Gates: gates(
			G(`instr:^call \(\*sched\.Topology\)\.updateInverseAntiAffinity\(`, `+^\(apim/util/sets\.Set\[string\]\)\.Has\(\^\$0\.excludedPods, `),
		), Note: "only excluded pods are skipped"},
		core.Custom{ID: "C02.MPT4", Kind: "PROV", Run: func(w *core.World, id string) []core.Result {
			return core.InstrAbsent(w, id, "PROV", "@arg:"+tp+"updateInverseAffinities|^call \\(\\*state\\.Cluster\\)\\.ForPodsWithAntiAffinity\\(|1", `^return false$`, "the walk over anti-affinity pods never stops early")
		}},
	}
}

// C02.REG2: TopologyGroup.Get has a case for every TopologyType constant and its default panics.
func c02GetDispatch(w *core.World, id string) []core.Result {
	const fnName = "(*sched.TopologyGroup).Get"
	fn := w.Fn(fnName)
	if fn == nil {
		return []core.Result{core.Anchor(id, "REG", fnName)}
	}
	construct := "REG:" + fnName
	var consts []string
	for path, p := range w.PkgByPath {
		if !strings.HasSuffix(path, "controllers/provisioning/scheduling") || p.Types == nil {
			continue
		}
		for _, n := range p.Types.Scope().Names() {
			if c, ok := p.Types.Scope().Lookup(n).(*types.Const); ok && strings.HasSuffix(c.Type().String(), ".TopologyType") {
				consts = append(consts, c.Val().ExactString())
			}
		}
	}
	if len(consts) < 3 {
		return []core.Result{core.Anchor(id, "REG", "TopologyType constants")}
	}
	re := regexp.MustCompile(`^\$0\.Type == (\d+)$`)
	got := map[string]bool{}
	for _, b := range fn.Blocks {
		t, _, ok := w.BlockLits(b)
		if ok {
			if m := re.FindStringSubmatch(t.Expr); m != nil {
				got[m[1]] = true
			}
		}
	}
	var out []core.Result
	for _, c := range consts {
		if !got[c] {
			out = append(out, core.Bad(id, "REG", construct, w.Pos(fn.Pos()), "TopologyType "+c+" has no case in TopologyGroup.Get"))
		}
	}
	panics := 0
	for _, b := range fn.Blocks {
		for _, in := range b.Instrs {
			if _, ok := in.(*ssa.Panic); ok {
				panics++
			}
		}
	}
	if panics == 0 {
		out = append(out, core.Bad(id, "REG", construct, w.Pos(fn.Pos()), "an unknown TopologyType no longer fail-stops"))
	}
	want := map[string]string{"0": "nextDomainTopologySpread", "1": "nextDomainAffinity", "2": "nextDomainAntiAffinity"}
	for c, f := range want {
		sites := w.Sites(fn, regexp.MustCompile(`^call \(\*sched\.TopologyGroup\)\.`+f+`\(`), false)
		if len(sites) != 1 {
			out = append(out, core.Bad(id, "REG", construct, w.Pos(fn.Pos()), f+" is not dispatched exactly once"))
			continue
		}
		ok := false
		for _, l := range w.DominatingLits(sites[0]) {
			if l == "+$0.Type == "+c {
				ok = true
			}
		}
		if !ok {
			out = append(out, core.Bad(id, "REG", construct, w.InstrPos(sites[0]), fmt.Sprintf("%s is not dispatched under TopologyType %s", f, c)))
		}
	}
	if len(out) == 0 {
		out = append(out, core.OK(id, "REG", construct, len(consts), fmt.Sprintf("%d TopologyType constants, all dispatched to their own selector; default panics", len(consts))))
	}
	return out
}

// C02.PHI1: the domain returned as the spread choice (the `In` requirement) is only ever assigned on edges that passed
// the skew test.
func c02SpreadChoice(w *core.World, id string) []core.Result {
	const fnName = "(*sched.TopologyGroup).nextDomainTopologySpread"
	fn := w.Fn(fnName)
	if fn == nil {
		return []core.Result{core.Anchor(id, "PROV", fnName)}
	}
	construct := "PROV:" + fnName + ":choice"
	gate := G(`-^\$0\.maxSkew < \(phi\(\$0\.domains\[.*\](#0)?\|\(\$0\.domains\[.*\](#0)? \+ 1\)\) - \(\*sched\.TopologyGroup\)\.domainMinCount\(\$0, \$2\)\)$`)
	cut := w.GateCut(fn, gate)
	var chosen *ssa.Phi
	for _, s := range w.Sites(fn, regexp.MustCompile(`^store &local<\[1\]string>\[0\] = phi\(`), false) {
		if p, ok := s.(*ssa.Store).Val.(*ssa.Phi); ok {
			chosen = p
		}
	}
	if chosen == nil {
		return []core.Result{core.Bad(id, "PROV", construct, w.Pos(fn.Pos()), "the chosen domain is no longer a loop-carried value stored into the returned requirement (idiom not recognised)")}
	}
	n := 0
	var out []core.Result
	seen := map[*ssa.Phi]bool{}
	var visit func(p *ssa.Phi)
	visit = func(p *ssa.Phi) {
		if seen[p] {
			return
		}
		seen[p] = true
		for i, e := range p.Edges {
			if q, ok := e.(*ssa.Phi); ok {
				visit(q)
				continue
			}
			if c, ok := e.(*ssa.Const); ok && c.Value != nil && c.Value.ExactString() == `""` {
				continue
			}
			n++
			if core.EdgeReachable(p.Block().Preds[i], p.Block(), cut) {
				out = append(out, core.Bad(id, "PROV", construct, w.InstrPos(p), "domain `"+clipStr(w.RenderD(e, 3), 60)+"` can become the spread choice without passing count − min ≤ maxSkew"))
			}
		}
	}
	visit(chosen)
	if n < 2 {
		return []core.Result{core.Bad(id, "PROV", construct, w.Pos(fn.Pos()), fmt.Sprintf("vacuous: %d assignments of the choice found, 2 confirmed by hand", n))}
	}
	if len(out) == 0 {
		out = append(out, core.OK(id, "PROV", construct, n, fmt.Sprintf("%d assignments, all after the skew test", n)))
	}
	return out
}

// C02.PHI2: domainMinCount — the number compared with minDomains counts exactly the domains the pod can use (incremented
// only under domains.Has(domain)), the comparison forces the minimum to 0, and hostname spreads use 0.
func c02MinCount(w *core.World, id string) []core.Result {
	const fnName = "(*sched.TopologyGroup).domainMinCount"
	fn := w.Fn(fnName)
	if fn == nil {
		return []core.Result{core.Anchor(id, "PROV", fnName)}
	}
	construct := "PROV:" + fnName
	var out []core.Result
	// the comparison
	var cmp *ssa.BinOp
	for _, b := range fn.Blocks {
		for _, in := range b.Instrs {
			if bo, ok := in.(*ssa.BinOp); ok && strings.Contains(w.Render(bo.Y), "$0.minDomains") {
				cmp = bo
			}
		}
	}
	if cmp == nil {
		return []core.Result{core.Bad(id, "PROV", construct, w.Pos(fn.Pos()), "the comparison with minDomains was not found")}
	}
	cnt, ok := cmp.X.(*ssa.Phi)
	if !ok {
		return []core.Result{core.Bad(id, "PROV", construct, w.InstrPos(cmp), "minDomains is compared with `"+clipStr(w.Render(cmp.X), 60)+"`, not with a count of the domains the pod can use")}
	}
	cut := w.GateCut(fn, G(`+^\(\*scheduling\.Requirement\)\.Has\(\$1, next\(range\(\$0\.domains\)\)#1\)$`))
	inc := 0
	for i, e := range cnt.Edges {
		switch x := e.(type) {
		case *ssa.Const:
			if x.Value == nil || x.Value.ExactString() != "0" {
				out = append(out, core.Bad(id, "PROV", construct, w.InstrPos(cnt), "the supported-domain count does not start at 0"))
			}
		case *ssa.BinOp:
			inc++
			if core.EdgeReachable(cnt.Block().Preds[i], cnt.Block(), cut) {
				out = append(out, core.Bad(id, "PROV", construct, w.InstrPos(x), "the supported-domain count is incremented for a domain the pod's requirements do not allow"))
			}
		case *ssa.Phi:
			if x != cnt {
				out = append(out, core.Bad(id, "PROV", construct, w.InstrPos(cnt), "unrecognised update of the supported-domain count"))
			}
		}
	}
	if inc == 0 {
		out = append(out, core.Bad(id, "PROV", construct, w.InstrPos(cnt), "the supported-domain count is never incremented"))
	}
	// the edge on which "fewer usable domains than minDomains" holds makes the returned minimum 0
	forced := false
	for _, b := range fn.Blocks {
		t, _, ok := w.BlockLits(b)
		if !ok || len(b.Succs) != 2 || !regexp.MustCompile(`^phi\(0\|.*\) < \$0\.minDomains$`).MatchString(t.Expr) || !t.Pol {
			continue
		}
		mid := b.Succs[0]
		if len(mid.Succs) != 1 {
			continue
		}
		join := mid.Succs[0]
		for k, p := range join.Preds {
			if p != mid {
				continue
			}
			for _, in := range join.Instrs {
				if phi, ok := in.(*ssa.Phi); ok {
					if c, ok := phi.Edges[k].(*ssa.Const); ok && c.Value != nil && c.Value.ExactString() == "0" {
						// and that phi is what is returned
						if ret, ok := join.Instrs[len(join.Instrs)-1].(*ssa.Return); ok && len(ret.Results) == 1 && ret.Results[0] == ssa.Value(phi) {
							forced = true
						}
					}
				}
			}
		}
	}
	if !forced {
		out = append(out, core.Bad(id, "PROV", construct, w.InstrPos(cmp), "when fewer usable domains than minDomains exist the global minimum is no longer forced to 0"))
	}
	out = append(out, dropOK(MPT{ID: id, Fn: fnName, Ret: core.RetSpec{Index: 0, Want: "any", Also: `^return 0$`}, Gates: gates(G(`+^\$0\.Key == "kubernetes\.io/hostname"$`))}.Check(w))...)
	if len(out) == 0 {
		out = append(out, core.OK(id, "PROV", construct, inc, "count over pod-usable domains; fewer than minDomains ⇒ 0; hostname ⇒ 0"))
	}
	return out
}
