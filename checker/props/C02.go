package props

import (
	"fmt"
	"go/token"
	"go/types"
	"os"
	"regexp"
	"sort"
	"strings"

	"kverif/core"

	"golang.org/x/tools/go/ssa"
)

func init() {
	core.Register(&core.Property{
		ID:    "C02",
		Title: "Inter-pod constraints hold in the simulated end state",
		Explanation: "The counts themselves and 'every domain the node could end up in' are runtime quantities and are NOT decided. Decided is that admission and commit are paired, cover both directions, and admit only domains that pass the documented tests: " +
			"(1) Topology.AddRequirements narrows (or fails) for every matching topology: own groups (owner) and inverse anti-affinity groups that Count the pod; pod domains come from the pod's requirements, node domains from the node's; an empty answer is an error; " +
			"(2) commit: both Add functions Record the pod with the node's taints and the very requirements CanAdd computed (the new claim registers its hostname first); Record updates every own group that Counts the pod (all possible domains for anti-affinity, the single domain otherwise) and every inverse group the pod owns; Register/Unregister reach both maps; " +
			"(3) TopologyGroup.Get dispatches every TopologyType and panics otherwise; " +
			"(4) spread: a domain enters validDomains / is returned only under count(+1 if self-selecting) − min ≤ maxSkew (hostname: min taken as 0); domainMinCount counts only domains the pod can use and forces min to 0 when those are fewer than minDomains; " +
			"(5) anti-affinity: only domains with no matching pod are offered (count == 0 / member of emptyDomains); affinity: only domains with a matching pod, or a bootstrap domain when the pod selects itself and no compatible domain has a match — and always a domain the pod's own requirements allow; " +
			"(6) relaxation and re-queueing refresh the topology (Update + updateCachedPodData) before the pod is tried again; inverse anti-affinities are seeded from every anti-affinity pod of the cluster that is not excluded; " +
			"(7) what Record counted during the pass stays counted (countDomains, the only other source of counts, sees bound pods only): the group registries of a Topology (topologyGroups, inverseTopologyGroups) only grow — assigned under construction, entries inserted only where a lookup of the same hash has just missed, never deleted, cleared, replaced or handed to code that writes into them; domainGroups is not written once built; Scheduler / NodeClaim / ExistingNode get their *Topology at construction only; inside a group a count is only incremented or zero-initialised for an unknown domain, a domain is declared empty only where it was unknown, domains are dropped by TopologyGroup.Unregister alone (reached from Topology.Unregister alone, which no scheduling code calls), and no group is overwritten as a whole. " +
			"(8) which groups govern a pod: AddOwner stores / IsOwnedBy reads the owners set; Topology.Update visits every spread and (anti-)affinity group built for the pod, makes the pod an owner of the registered group (the one found under the hash, or the new one after it was inserted) and succeeds only after the last one; a pod with required anti-affinity terms gets its inverse groups under either preference policy (a failed registration fails Update); per required term the inverse group is an anti-affinity group over the term's key / namespaces / selector, owned by the pod, with the running pod's node domain recorded whenever known; newForTopologies yields a group for every DoNotSchedule constraint (key, selector, maxSkew, minDomains, inclusion policies, the pod's namespace) and visits all constraints; newForAffinities collects the required affinity terms as affinity and the required anti-affinity terms as anti-affinity groups and builds one group per collected term; " +
			"(9) what a group counts: Counts ⇒ selects ∧ nodeFilter.Matches; only spread groups get a node filter, whose policies default to Ignore (taints) / Honor (affinity) only when unset; the filter excludes a node only under a Honor policy (the zero filter never does); the group's selector is the term's parsed selector (Nothing only on a parse error) and its fields are the constructor's arguments; countDomains collects the pods of every namespace, visits every one and records it unless it is ignored-for-topology, excluded, on a vanished node, on a node without the domain, or filtered out; " +
			"(10) spread arithmetic: the bare count reaches the skew test only for a pod the constraint does not select (self counts +1, all three sites); domainMinCount returns a running minimum that starts at MaxInt32, is lowered exactly when a usable domain's count is smaller, and consults minDomains whenever it is set; an In answer of nextDomainTopologySpread names a domain that passed the skew test (no candidate ⇒ DoesNotExist); AddRequirements passes the pod's own requirement for the key as podDomains whenever the pod has one; " +
			"(11) admission is binding: both tryVolumeAlternative succeed only if AddRequirements succeeded and the node's / claim's requirements are Compatible with its answer, which is merged into the returned set; CanAdd returns that set; NodeClaim.Add stores it as the claim's requirements; addToNewNodeClaim commits the set CanAdd computed for the very claim it adds; NewNodeClaim pins the claim to a hostname domain of its own (the one Add registers); " +
			"(12) the cluster's anti-affinity index: a pod with required anti-affinity is stored under its key and deleted only when it has none (or by DeletePod / Reset); ForPodsWithAntiAffinity ranges over the index, hands the pod and its Node to the callback, skips only unbound pods / unknown Nodes and stops only when the callback says so; " +
			"(13) group identity: the selector's matchLabels are part of the hash (left out only for a nil selector).",
		NotCovered: []string{
			"that domain counts are right beyond the structure decided in (9): the domain universe (buildDomainGroups, TopologyDomainGroup, domains discovered from state nodes), the node cache and domain resolution inside countDomains, IgnoredForTopology, matchLabelKeys, buildNamespaceList, TopologyNodeFilter.matchesRequirements — value-level",
			"errors of the API swallowed while the topology is built (updateInverseAffinities collects them, NewTopology returns them — not decided)",
			"an error check merged with another through one error variable (`if err == nil { err = Compatible(…) }; if err != nil`) is read as a possibly skipped check by C02.ADM1/ADM2 (engine limitation shared with C01.MPT2/MPT4)",
			"'for every domain the node could end up in' when requirements have not collapsed to one domain",
			"queue-order and relaxation-order effects between pods of a batch",
			"label-selector semantics; which requirement sets a TopologyNodeFilter holds beyond C02.PROV5",
			"ownership bookkeeping of a group (TopologyGroup.owners: which pods RemoveOwner / AddOwner touch) and writes to a group's other fields; aliasing of the registries through values the checker does not follow (a map stored into another struct field, returned from a function, or passed through an interface)",
		},
		Rules: c02Rules,
	})
}

func c02Rules(tier string) []Rule {
	rules := c02RulesBase(tier)
	// a pod update always refreshes the anti-affinity index, also when the node usage update fails (node not tracked yet)
	// (7) what was counted during the pass stays counted: the registries only grow, the counts only go up
	rules = append(rules,
		core.Custom{ID: "C02.WMC1", Kind: "WMC", Run: c02RegistryGrowOnly},
		core.Custom{ID: "C02.WMC2", Kind: "WMC", Run: c02GroupCountsKept})
	rules = append(rules, POST{ID: "C02.AAIDX1", Fn: "(*state.Cluster).UpdatePod", From: "", Must: []string{`^call \(\*state\.Cluster\)\.updatePodAntiAffinities\(\$0, \$2\)$`}, Note: "every path through UpdatePod updates the anti-affinity index"})
	// (8)–(13): triage of the mutation sweep
	rules = append(rules, c02SweepRules()...)
	rules = append(rules, topologyAdmissionRules("C02")...)
	return rules
}

// c02SweepRules: the clauses added while triaging the single-site mutation sweep of C02's anchor files (numbers as in the
// table's Explanation; (11) — admission is binding — is the shared builder topologyAdmissionRules plus C02.HOST1).
//
//	(8)  which groups govern a pod: Update builds a group for every DoNotSchedule spread constraint and every required
//	     (anti-)affinity term, registers-or-finds each and makes the pod an owner; a pod with required anti-affinity gets
//	     its inverse groups; ownership is what AddOwner stores and IsOwnedBy reads.
//	(9)  what a group counts: Counts ⇒ selects ∧ nodeFilter.Matches; only spread groups get a node filter, the zero filter
//	     matches every node; countDomains visits every listed pod and records it unless one of the documented reasons
//	     applies; inverse groups record the domain of the running pod they come from.
//	(10) spread arithmetic: a self-selecting pod is counted in (+1) before the skew test; the global minimum is a running
//	     minimum over the domains the pod can use; minDomains is consulted whenever it is set; no valid domain ⇒ an empty
//	     answer.
//	(12) the anti-affinity index of the cluster state feeds every bound pod with required anti-affinity to the pass.
//	(13) group identity: the selector's matchLabels are part of the hash.
func c02SweepRules() []Rule {
	const (
		tp      = "(*sched.Topology)."
		tg      = "(*sched.TopologyGroup)."
		updLoop = `\(phi\(-1\|\(phi↺ \+ 1\)\) \+ 1\) < len\(append\(\(\*sched\.Topology\)\.newForTopologies\(\$0, \$2\), \(\*sched\.Topology\)\.newForAffinities\(\$0, \$2\)#0\)\)`
		invLoop = `\(phi\(-1\|\(phi↺ \+ 1\)\) \+ 1\) < len\(\$2\.Spec\.Affinity\.PodAntiAffinity\.RequiredDuringSchedulingIgnoredDuringExecution\)`
		tscLoop = `\(phi\(-1\|\(phi↺ \+ 1\)\) \+ 1\) < len\(\$1\.Spec\.TopologySpreadConstraints\)`
		podLoop = `\(phi\(-1\|\(phi↺ \+ 1\)\) \+ 1\) < len\(append\(.*&local<corev1\.PodList>\.Items\)\)`
		nsLoop  = `\(phi\(-1\|\(phi↺ \+ 1\)\) \+ 1\) < len\(\(apim/util/sets\.Set\[string\]\)\.UnsortedList\(\$2\.namespaces\)\)`
		terms   = `makemap<map\[sched\.TopologyType\]\[\]corev1\.PodAffinityTerm>`
		hasReq  = `-^utils/pod\.HasRequiredPodAntiAffinity\(\$2\)$`
		hasAny  = `-^utils/pod\.HasPodAntiAffinity\(\$2\)$`
		invOK   = `+^\(\*sched\.Topology\)\.updateInverseAntiAffinity\(\$0, \$2, nil\) == nil$`
		selfSel = `-^\(\*sched\.TopologyGroup\)\.selects\(\$0, \$1\)$`
	)
	return []Rule{
		// ---- (8) which groups govern a pod
		core.Custom{ID: "C02.OWN1", Kind: "PROV", Run: func(w *core.World, id string) []core.Result {
			rs := core.InstrPresent(w, id, "PROV", tg+"AddOwner", `^mapupdate \$0\.owners\[\$1\] = `, 1, "AddOwner enters the pod into the group's owners")
			rs = append(rs, core.InstrPresent(w, id, "PROV", tg+"IsOwnedBy", `^return \$0\.owners\[\$1\]#1$`, 1, "IsOwnedBy answers from the same set")...)
			return rs
		}},
		ITER{ID: "C02.OWN2", Fn: tp + "Update", Loop: `+^` + updLoop + `$`, Gates: gates(
			G(`instr:^call \(\*sched\.TopologyGroup\)\.AddOwner\(.*, \$2\.ObjectMeta\.UID\)$`),
		), Note: "every spread / affinity group built for the pod gets the pod as an owner"},
		MPT{ID: "C02.OWN3", Fn: tp + "Update", Ret: core.RetOK, Gates: gates(
			G(`-^` + updLoop + `$`),
		), Note: "Update succeeds only after every group built for the pod (spread groups and affinity groups) has been visited"},
		core.Custom{ID: "C02.OWN4", Kind: "PROV", Run: func(w *core.World, id string) []core.Result {
			return c02ActsOnRegistered(w, id, tp+"Update", "topologyGroups", `^call \(\*sched\.TopologyGroup\)\.AddOwner\(`, 1,
				"the group the pod comes to own is the registered one: the group found under the hash, or the freshly built one after it was entered into topologyGroups")
		}},
		MPT{ID: "C02.OWN5", Fn: tp + "Update", Ret: core.RetOK, Gates: gates(
			G(invOK, hasReq, hasAny, `-^\$0\.preferencePolicy == 1$`),
			G(invOK, hasReq, hasAny, `-^\$0\.preferencePolicy == 0$`),
		), Note: "a pod with required anti-affinity terms gets its inverse groups (under either preference policy) before Update succeeds"},
		core.Custom{ID: "C02.OWN5c", Kind: "REG", Run: func(w *core.World, id string) []core.Result {
			rs := core.ConstIs(w, id, "controllers/provisioning/scheduling", "PreferencePolicyIgnore", "1", "PreferencePolicyIgnore (the literals of C02.OWN5 / C02.GRP1 are written with its value)")
			return append(rs, core.ConstIs(w, id, "controllers/provisioning/scheduling", "PreferencePolicyRespect", "0", "PreferencePolicyRespect")...)
		}},
		ITER{ID: "C02.OWN6", Fn: tp + "updateInverseAntiAffinity", Loop: `+^` + invLoop + `$`, Gates: gates(
			G(`instr:^call \(\*sched\.TopologyGroup\)\.AddOwner\(.*, \$2\.ObjectMeta\.UID\)$`),
			G(`instr:^call \(\*sched\.TopologyGroup\)\.Record\(.*, &local<\[1\]string>\[:\]\)$`, `-^\$3\[.*\.Key\]#1$`),
		), Note: "every required anti-affinity term: the pod owns the inverse group, and the domain of the node it runs on is counted whenever it is known"},
		MPT{ID: "C02.OWN7", Fn: tp + "updateInverseAntiAffinity", Ret: core.RetOK, Gates: gates(G(`-^` + invLoop + `$`)), Note: "success only after every required term"},
		core.Custom{ID: "C02.OWN8", Kind: "PROV", Run: func(w *core.World, id string) []core.Result {
			f := tp + "updateInverseAntiAffinity"
			rs := core.InstrPresent(w, id, "PROV", f, `^call sched\.NewTopologyGroup\(2, \$2\.Spec\.Affinity\.PodAntiAffinity\.RequiredDuringSchedulingIgnoredDuringExecution\[.*\]\.TopologyKey, \$2, \(\*sched\.Topology\)\.buildNamespaceList\(.*\)#0, \$2\.Spec\.Affinity\.PodAntiAffinity\.RequiredDuringSchedulingIgnoredDuringExecution\[.*\]\.LabelSelector, 2147483647, nil, nil, nil, `, 1, "an inverse group is an anti-affinity group over the term's key, namespaces and selector")
			rs = append(rs, core.InstrPresent(w, id, "PROV", f, `^store &local<\[1\]string>\[0\] = \$3\[.*\.Key\]#0$`, 1, "the domain recorded is the node's label value for the group's key")...)
			return rs
		}},
		core.Custom{ID: "C02.OWN9", Kind: "PROV", Run: func(w *core.World, id string) []core.Result {
			return c02ActsOnRegistered(w, id, tp+"updateInverseAntiAffinity", "inverseTopologyGroups", `^call \(\*sched\.TopologyGroup\)\.(AddOwner|Record)\(`, 2,
				"the inverse group recorded into and owned is the registered one")
		}},

		// spread constraints → groups
		ITER{ID: "C02.GRP1", Fn: tp + "newForTopologies", Loop: `+^` + tscLoop + `$`, Gates: gates(
			G(`instr:^call append\(phi\(.*\), &local<\[1\]\*sched\.TopologyGroup>\[:\]\)$`, `-^\$1\.Spec\.TopologySpreadConstraints\[.*\]\.WhenUnsatisfiable == "DoNotSchedule"$`, `+^\$1\.Spec\.TopologySpreadConstraints\[.*\]\.WhenUnsatisfiable == "ScheduleAnyway"$`),
		), Note: "every DoNotSchedule constraint yields a group (only ScheduleAnyway ones may be skipped)"},
		MPT{ID: "C02.GRP2", Fn: tp + "newForTopologies", Ret: core.RetAny, Gates: gates(G(`-^` + tscLoop + `$`)), Note: "…and every constraint is visited"},
		core.Custom{ID: "C02.GRP3", Kind: "PROV", Run: func(w *core.World, id string) []core.Result {
			f := tp + "newForTopologies"
			c := `\$1\.Spec\.TopologySpreadConstraints\[.*\]`
			rs := core.InstrPresent(w, id, "PROV", f, `^store &local<\[1\]\*sched\.TopologyGroup>\[0\] = sched\.NewTopologyGroup\(0, `+c+`\.TopologyKey, \$1, apim/util/sets\.New\[string\]\(&local<\[1\]string>\[:\]\), `+c+`\.LabelSelector, `+c+`\.MaxSkew, `+c+`\.MinDomains, `+c+`\.NodeTaintsPolicy, `+c+`\.NodeAffinityPolicy, \$0\.domainGroups\[`+c+`\.TopologyKey\]\)$`, 1, "the group carries the constraint's key, selector, maxSkew, minDomains and inclusion policies")
			rs = append(rs, core.InstrPresent(w, id, "PROV", f, `^store &local<\[1\]string>\[0\] = \$1\.ObjectMeta\.Namespace$`, 1, "a spread group counts the pod's own namespace")...)
			rs = append(rs, core.InstrPresent(w, id, "PROV", f, `^return phi\(nil\|phi↺\|append\(phi↺, &local<\[1\]\*sched\.TopologyGroup>\[:\]\)\)$`, 1, "the accumulated list is returned")...)
			return rs
		}},
		// (anti-)affinity terms → groups
		POST{ID: "C02.GRP4", Fn: tp + "newForAffinities", FromLit: `-^\$2\.Spec\.Affinity\.PodAffinity == nil$`,
			Must: []string{`^mapupdate ` + terms + `\[1\] = append\(` + terms + `\[1\], \$2\.Spec\.Affinity\.PodAffinity\.RequiredDuringSchedulingIgnoredDuringExecution\)$`}, Note: "required pod-affinity terms become affinity groups"},
		POST{ID: "C02.GRP5", Fn: tp + "newForAffinities", FromLit: `-^\$2\.Spec\.Affinity\.PodAntiAffinity == nil$`,
			Must: []string{`^mapupdate ` + terms + `\[2\] = append\(` + terms + `\[2\], \$2\.Spec\.Affinity\.PodAntiAffinity\.RequiredDuringSchedulingIgnoredDuringExecution\)$`}, Note: "required pod-anti-affinity terms become anti-affinity groups"},
		ITER{ID: "C02.GRP6", Fn: tp + "newForAffinities", Loop: `+^\(phi\(-1\|\(phi↺ \+ 1\)\) \+ 1\) < len\(next\(range\(` + terms + `\)\)#2\)$`, Gates: gates(
			G(`instr:^call append\(phi\(.*\), &local<\[1\]\*sched\.TopologyGroup>\[:\]\)$`),
		), Note: "every collected term yields a group"},
		ITER{ID: "C02.GRP7", Fn: tp + "newForAffinities", Loop: `+^next\(range\(` + terms + `\)\)#0$`, Gates: gates(
			G(`-^\(phi\(-1\|\(phi↺ \+ 1\)\) \+ 1\) < len\(next\(range\(` + terms + `\)\)#2\)$`),
		), Note: "every term of a type is visited"},
		MPT{ID: "C02.GRP8", Fn: tp + "newForAffinities", Ret: core.RetOK, Gates: gates(
			G(`-^next\(range\(`+terms+`\)\)#0$`, `+^\$2\.Spec\.Affinity == nil$`),
		), Note: "success only after every type of term was visited (or the pod has no affinity)"},
		core.Custom{ID: "C02.GRP9", Kind: "PROV", Run: func(w *core.World, id string) []core.Result {
			f := tp + "newForAffinities"
			t := `next\(range\(.*\)\)#2\[.*\]`
			rs := core.InstrPresent(w, id, "PROV", f, `^store &local<\[1\]\*sched\.TopologyGroup>\[0\] = sched\.NewTopologyGroup\(next\(range\(.*\)\)#1, `+t+`\.TopologyKey, \$2, \(\*sched\.Topology\)\.buildNamespaceList\(.*\)#0, `+t+`\.LabelSelector, 2147483647, nil, nil, nil, `, 1, "the group has the type its term was collected under, the term's key, namespaces and selector")
			rs = append(rs, core.InstrPresent(w, id, "PROV", f, `^return phi\(nil\|phi\(phi↺\|append\(.*\)\)\), nil$`, 1, "the accumulated list is returned")...)
			return rs
		}},

		// ---- (9) what a group counts
		MPT{ID: "C02.CNT1", Fn: tg + "Counts", Ret: core.RetTrue, Gates: gates(
			G(`+^\(\*sched\.TopologyGroup\)\.selects\(\$0, \$1\)$`),
			G(`+^\(sched\.TopologyNodeFilter\)\.Matches\(\$0\.nodeFilter, \$2, \$3, \$4\)$`),
		), Note: "a pod counts ⇒ the group selects it and the node passes the group's node filter"},
		DOM{ID: "C02.CNT2", Fn: "sched.NewTopologyGroup", Sink: `^call sched\.MakeTopologyNodeFilter\(`, Gates: gates(G(`+^\$0 == 0$`)),
			Note: "only spread groups filter nodes: affinity and anti-affinity count matching pods on every node"},
		phiRule{ID: "C02.CNT3", Fn: "(sched.TopologyNodeFilter).Matches", Phi: `^phi\(true\|\(sched\.TopologyNodeFilter\)\.matchesRequirements\(`, Edge: `^\(sched\.TopologyNodeFilter\)\.matchesRequirements\(`, Gate: G(`+^\$0\.AffinityPolicy == "Honor"$`), Min: 1,
			What: "node affinity excludes a node only under nodeAffinityPolicy Honor — the zero filter of affinity / anti-affinity groups never does"},
		phiRule{ID: "C02.CNT3b", Fn: "(sched.TopologyNodeFilter).Matches", Phi: `^phi\(false\|true\)$`, Edge: `^false$`, Gate: G(`+^\$0\.TaintPolicy == "Honor"$`), Min: 1,
			What: "taints exclude a node only under nodeTaintsPolicy Honor"},
		MPT{ID: "C02.CNT3c", Fn: "(sched.TopologyNodeFilter).Matches", Ret: core.RetFalse, Gates: gates(
			G(`-^phi\(true\|\(sched\.TopologyNodeFilter\)\.matchesRequirements\(.*\)$`, `-^phi\(false\|true\)$`),
		), Note: "Matches answers false only when one of the two tests failed"},
		phiRule{ID: "C02.CNT4", Fn: "sched.NewTopologyGroup", Phi: `^phi\(apim/labels\.Nothing\(\)\|metav1\.LabelSelectorAsSelector\(\$4\)#0\)$`, Edge: `^apim/labels\.Nothing\(\)$`, Gate: G(`-^metav1\.LabelSelectorAsSelector\(\$4\)#1 == nil$`), Min: 1,
			What: "the group selects with the term's own selector; 'nothing' only replaces a selector that does not parse"},
		core.Custom{ID: "C02.CNT5", Kind: "PROV", Run: func(w *core.World, id string) []core.Result {
			const f = "sched.NewTopologyGroup"
			var rs []core.Result
			for _, fs := range [][2]string{{"Type", `\$0`}, {"Key", `\$1`}, {"namespaces", `\$3`}, {"selector", `phi\(apim/labels\.Nothing\(\)\|metav1\.LabelSelectorAsSelector\(\$4\)#0\)`}, {"rawSelector", `\$4`},
				{"maxSkew", `\$5`}, {"minDomains", `\$6`}, {"nodeFilter", `sched\.MakeTopologyNodeFilter\(\$2, phi\("Ignore"\|\$7\), phi\("Honor"\|\$8\)\)`}} {
				rs = append(rs, core.InstrPresent(w, id, "PROV", f, `^store &local<sched\.TopologyGroup>\.`+fs[0]+` = `+fs[1]+`$`, 1, "TopologyGroup."+fs[0]+" is what the caller asked for")...)
			}
			return rs
		}},
		phiRule{ID: "C02.CNT6", Fn: "sched.NewTopologyGroup", Phi: `^phi\("Ignore"\|\$7\)$`, Edge: `^"Ignore"$`, Gate: G(`+^\$7 == nil$`), Min: 1, What: "nodeTaintsPolicy defaults to Ignore only when the constraint does not set it"},
		phiRule{ID: "C02.CNT7", Fn: "sched.NewTopologyGroup", Phi: `^phi\("Honor"\|\$8\)$`, Edge: `^"Honor"$`, Gate: G(`+^\$8 == nil$`), Min: 1, What: "nodeAffinityPolicy defaults to Honor only when the constraint does not set it"},
		// seeding from the API
		ITER{ID: "C02.SEED1", Fn: tp + "countDomains", Loop: `+^` + nsLoop + `$`, Gates: gates(
			G(`instr:^store .* = append\(.*&local<corev1\.PodList>\.Items\)$`),
		), Note: "the pods listed in every namespace of the group are collected"},
		ITER{ID: "C02.SEED2", Fn: tp + "countDomains", Loop: `+^` + podLoop + `$`, Gates: gates(
			G(`instr:^call \(\*sched\.TopologyGroup\)\.Record\(\$2, &local<\[1\]string>\[:\]\)$`,
				`+^sched\.IgnoredForTopology\(`, `+^\(apim/util/sets\.Set\[string\]\)\.Has\(\$0\.excludedPods, `, `+^apim/api/errors\.IsNotFound\(`,
				`-^phi\(true\|.*\.ObjectMeta\.Labels\[\$2\.Key\]#1\)$`, `-^\(sched\.TopologyNodeFilter\)\.Matches\(\$2\.nodeFilter, `),
		), Note: "a listed pod is counted unless it is unscheduled/terminal, excluded, its node is gone, the node has no such domain, or the node filter excludes the node"},
		MPT{ID: "C02.SEED3", Fn: tp + "countDomains", Ret: core.RetOK, Gates: gates(G(`-^`+podLoop+`$`), G(`-^`+nsLoop+`$`)), Note: "success only after every namespace was listed and every listed pod was visited"},

		// ---- (10) spread arithmetic
		phiRule{ID: "C02.SKEW1", Fn: tg + "nextDomainTopologySpread", Phi: `^phi\(\$0\.domains\[.*\](#0)?\|\(\$0\.domains\[.*\](#0)? \+ 1\)\)$`, Edge: `^\$0\.domains\[.*\](#0)?$`, Gate: G(selfSel), Min: 3,
			What: "a pod the constraint selects is counted in before the skew test (count + 1); the bare count is used only for a pod that does not select itself"},
		core.Custom{ID: "C02.SKEW2", Kind: "PROV", Run: c02RunningMin},
		MPT{ID: "C02.SKEW3", Fn: tg + "nextDomainTopologySpread", Ret: core.RetSpec{Index: 0, Want: "any", Also: `^return scheduling\.NewRequirement\(\$0\.Key, "In", &local<\[1\]string>\[:\]\), `}, Min: 2, Gates: gates(
			G(`-^phi\(.*\) == ""$`, `-^\$0\.maxSkew < phi\(\$0\.domains\[`),
		), Note: "an In answer names a domain that passed the skew test: no valid domain ⇒ the empty (DoesNotExist) answer, which AddRequirements turns into an error"},
		phiRule{ID: "C02.SKEW4", Fn: tp + "AddRequirements", Phi: `^phi\(\(scheduling\.Requirements\)\.Get\(\$3, .*\)\|scheduling\.NewRequirement\(.*"Exists", nil\)\)$`, Edge: `^scheduling\.NewRequirement\(`, Gate: G(`-^\(scheduling\.Requirements\)\.Has\(\$3, `), Min: 1,
			What: "the pod's domains are its own requirement for the key whenever it has one ('any domain' only for a pod without one): minDomains and the bootstrap test count the domains the pod can use"},

		// ---- (12) the anti-affinity index
		POST{ID: "C02.AAIDX2", Fn: "(*state.Cluster).updatePodAntiAffinities", FromLit: `+^utils/pod\.HasRequiredPodAntiAffinity\(\$1\)$`,
			Must: []string{`^call \(\*sync\.Map\)\.Store\(\$0\.antiAffinityPods, <cr/client\.ObjectKey>cr/client\.ObjectKeyFromObject\(<\*corev1\.Pod>\$1\), <\*corev1\.Pod>\$1\)$`}, Note: "a pod with required anti-affinity terms is indexed under its own key"},
		DOM{ID: "C02.AAIDX3", Fn: "(*state.Cluster).updatePodAntiAffinities", Sink: `^call \(\*sync\.Map\)\.Delete\(\$0\.antiAffinityPods, `, Gates: gates(G(`-^utils/pod\.HasRequiredPodAntiAffinity\(\$1\)$`)), Note: "…and dropped from the index only when it has none"},
		core.Custom{ID: "C02.AAIDX4", Kind: "PROV", Run: func(w *core.World, id string) []core.Result {
			const f = "(*state.Cluster).ForPodsWithAntiAffinity"
			rs := core.InstrPresent(w, id, "PROV", f, `^call \(\*sync\.Map\)\.Range\(\$0\.antiAffinityPods, closure:`, 1, "the walk ranges over the anti-affinity index")
			rs = append(rs, core.InstrPresent(w, id, "PROV", f, `^call dyn:\^\$1\(\$1\.\(\*corev1\.Pod\), \^\$0\.nodes\[\^\$0\.nodeNameToProviderID\[\^\$0\.bindings\[cr/client\.ObjectKeyFromObject\(.*\)\]#0\]\]#0\.Node\)$`, 1, "the callback gets the indexed pod and the Node it is bound to")...)
			rs = append(rs, core.InstrAbsent(w, id, "PROV", f, `^store &local<bool> = false$|^return false$`, "the walk stops only when the callback says so")...)
			return rs
		}},
		DOM{ID: "C02.AAIDX5", Fn: "(*state.Cluster).ForPodsWithAntiAffinity", Sink: `^store &local<bool> = true$|^return true$`, Min: 2, Gates: gates(
			G(`-^\^\$0\.bindings\[.*\]#1$`, `-^\^\$0\.nodes\[.*\]#1$`, `+^\^\$0\.nodes\[.*\]#0\.Node == nil$`),
		), Note: "an indexed pod is skipped only when it has no binding or its Node is not in the cluster state"},
		WMC{ID: "C02.AAIDX6", Sink: `^(call|go|defer) \(\*sync\.Map\)\.(Delete|Clear|LoadAndDelete|CompareAndDelete|Swap|CompareAndSwap)\(.*\.antiAffinityPods, |^store .*\.antiAffinityPods = `,
			Allowed: []string{"(*state.Cluster).updatePodAntiAffinities", "(*state.Cluster).DeletePod", "(*state.Cluster).Reset"}, Required: []string{"(*state.Cluster).DeletePod"}},

		// a new claim is a hostname domain of its own — the one Add registers and the single-host special cases look up
		core.Custom{ID: "C02.HOST1", Kind: "PROV", Run: func(w *core.World, id string) []core.Result {
			const f = "sched.NewNodeClaim"
			rs := core.InstrPresent(w, id, "PROV", f, `^store &local<\[1\]string>\[0\] = fmt\.Sprintf\(`, 1, "the hostname requirement names the claim's generated hostname")
			rs = append(rs, core.InstrPresent(w, id, "PROV", f, `^store &local<\[1\]\*scheduling\.Requirement>\[0\] = scheduling\.NewRequirement\("kubernetes\.io/hostname", "In", &local<\[1\]string>\[:\]\)$`, 1, "the claim is pinned to kubernetes.io/hostname In [its hostname]")...)
			rs = append(rs, core.InstrPresent(w, id, "PROV", f, `^call \(scheduling\.Requirements\)\.Add\(.*Requirements, &local<\[1\]\*scheduling\.Requirement>\[:\]\)$`, 1, "…in the requirements of the claim")...)
			rs = append(rs, core.InstrPresent(w, id, "PROV", f, `^store &local<sched\.NodeClaim>\.hostname = fmt\.Sprintf\(`, 1, "the hostname Add registers is that same hostname")...)
			return rs
		}},

		// ---- (13) group identity
		core.Custom{ID: "C02.HASH1", Kind: "PROV", Run: func(w *core.World, id string) []core.Result {
			const f = "sched.hashSelector"
			rs := core.InstrPresent(w, id, "PROV", f, `^call github\.com/mitchellh/hashstructure/v2\.Hash\(<map\[string\]string>\$0\.MatchLabels, `, 1, "the selector's matchLabels are hashed")
			rs = append(rs, core.InstrPresent(w, id, "PROV", f, `^store &local<\[2\]any>\[1\] = phi\(0\|lo\.Must\[uint64\]\(github\.com/mitchellh/hashstructure/v2\.Hash\(<map\[string\]string>`, 1, "…and that hash is the second component of what is hashed")...)
			return rs
		}},
		phiRule{ID: "C02.HASH2", Fn: "sched.hashSelector", Phi: `^phi\(0\|lo\.Must\[uint64\]\(`, Edge: `^0$`, Gate: G(`+^\$0 == nil$`), Min: 1, What: "the matchLabels hash is left out only for a nil selector: groups with different selectors never share a hash slot"},
	}
}

// c02ActsOnRegistered: every call matching callRe in fn acts on a group that is in the registry `field` of the Topology:
// its receiver is what a lookup of that map answered, or a value that reaches the call only after a write into that map
// (the freshly built group after it was registered); a phi is read operand by operand.
func c02ActsOnRegistered(w *core.World, id, fnName, field, callRe string, min int, what string) []core.Result {
	fn := w.Fn(fnName)
	if fn == nil {
		return []core.Result{core.Anchor(id, "PROV", fnName)}
	}
	construct := "PROV:" + fnName + "▸" + callRe + "#recv∈" + field
	sites := w.Sites(fn, regexp.MustCompile(callRe), true)
	if len(sites) < min {
		return []core.Result{core.Bad(id, "PROV", construct, w.Pos(fn.Pos()), fmt.Sprintf("vacuous: %d call(s) matching `%s` in %s, %d confirmed by hand", len(sites), callRe, fnName, min))}
	}
	found := regexp.MustCompile(`^\$0\.` + regexp.QuoteMeta(field) + `\[.*\]#0$`)
	inserted := G(`instr:^mapupdate \$0\.` + regexp.QuoteMeta(field) + `\[`)
	var out []core.Result
	for _, s := range sites {
		ci, ok := s.(ssa.CallInstruction)
		if !ok {
			continue
		}
		args := core.CallArgs(ci.Common())
		if len(args) == 0 {
			continue
		}
		cut := w.GateCut(s.Parent(), inserted)
		seen := map[*ssa.Phi]bool{}
		var check func(v ssa.Value, viaPred, viaBlock *ssa.BasicBlock)
		check = func(v ssa.Value, viaPred, viaBlock *ssa.BasicBlock) {
			if phi, isPhi := v.(*ssa.Phi); isPhi {
				if seen[phi] {
					return
				}
				seen[phi] = true
				for i, e := range phi.Edges {
					check(e, phi.Block().Preds[i], phi.Block())
				}
				return
			}
			if found.MatchString(w.RenderD(v, 6)) {
				return
			}
			reach := false
			if viaPred != nil {
				reach = core.EdgeReachable(viaPred, viaBlock, cut)
			} else {
				reach = core.InstrReachable(s, cut)
			}
			if reach {
				out = append(out, core.Bad(id, "PROV", construct, w.InstrPos(s), fmt.Sprintf("%s: `%s` acts on `%s`, which is neither the group found in %s nor a group entered into it before", what, clipStr(w.RenderInstr(s), 70), clipStr(w.RenderD(v, 3), 70), field)))
			}
		}
		check(args[0], nil, nil)
	}
	if len(out) == 0 {
		out = append(out, core.OK(id, "PROV", construct, len(sites), what))
	}
	return out
}

// phiRule wraps phiEdgesUnder as a table row.
type phiRule struct {
	ID, Fn, Phi, Edge string
	Gate              Gate
	Min               int
	What              string
}

func (r phiRule) RuleID() string { return r.ID }
func (r phiRule) Check(w *core.World) []core.Result {
	return phiEdgesUnder(w, r.ID, "PHI", r.Fn, r.Phi, r.Edge, r.Gate, r.Min, r.What)
}

// C02.SKEW2: domainMinCount returns a running minimum. The value that reaches the final return (outside the forced 0 and
// the hostname 0) is a loop-carried variable that starts at MaxInt32 and is replaced by a domain's count only on the edge
// on which that count compared smaller (< or ≤) than the variable, and only for a domain the pod can use; and minDomains
// is consulted on every path on which it is set (the comparison is reached from every `minDomains != nil` edge and from
// no other).
func c02RunningMin(w *core.World, id string) []core.Result {
	const fnName = "(*sched.TopologyGroup).domainMinCount"
	fn := w.Fn(fnName)
	if fn == nil {
		return []core.Result{core.Anchor(id, "PROV", fnName)}
	}
	construct := "PROV:" + fnName + ":running-min"
	var out []core.Result
	// the loop-carried minimum: a phi with a MaxInt32 operand
	var min *ssa.Phi
	for _, b := range fn.Blocks {
		for _, in := range b.Instrs {
			phi, ok := in.(*ssa.Phi)
			if !ok {
				break
			}
			for _, e := range phi.Edges {
				if c, isC := e.(*ssa.Const); isC && c.Value != nil && c.Value.ExactString() == "2147483647" {
					min = phi
				}
			}
		}
	}
	if min == nil {
		return []core.Result{core.Bad(id, "PROV", construct, w.Pos(fn.Pos()), "the running minimum (a loop-carried value starting at MaxInt32) was not found (idiom not recognised)")}
	}
	usable := w.GateCut(fn, G(`+^\(\*scheduling\.Requirement\)\.Has\(\$1, next\(range\(\$0\.domains\)\)#1\)$`))
	updates := 0
	for i, e := range min.Edges {
		switch x := e.(type) {
		case *ssa.Const:
			continue
		case *ssa.Phi:
			if x == min {
				continue
			}
		}
		if e == ssa.Value(min) {
			continue
		}
		updates++
		r := w.Render(e)
		if !regexp.MustCompile(`^next\(range\(\$0\.domains\)\)#2$`).MatchString(r) {
			out = append(out, core.Bad(id, "PROV", construct, w.InstrPos(min), "the running minimum is replaced by `"+clipStr(r, 60)+"`, not by the count of the domain being visited"))
			continue
		}
		// the edge is taken only where count < min (or ≤) held: cutting the edges on which `count < min` / `-(min < count)` holds makes it unreachable
		smaller := w.GateCut(fn, G(`+^next\(range\(\$0\.domains\)\)#2 < phi\(`, `-^phi\(.*\) < next\(range\(\$0\.domains\)\)#2$`))
		if core.EdgeReachable(min.Block().Preds[i], min.Block(), smaller) {
			out = append(out, core.Bad(id, "PROV", construct, w.InstrPos(min), "the running minimum is replaced by a domain's count on a path on which that count was not found smaller: the global minimum is overstated, and count − min ≤ maxSkew admits domains beyond the skew"))
		}
		if core.EdgeReachable(min.Block().Preds[i], min.Block(), usable) {
			out = append(out, core.Bad(id, "PROV", construct, w.InstrPos(min), "the running minimum takes the count of a domain the pod's requirements do not allow"))
		}
	}
	if updates == 0 {
		out = append(out, core.Bad(id, "PROV", construct, w.InstrPos(min), "the running minimum is never lowered: it stays MaxInt32 and count − min ≤ maxSkew holds for every domain"))
	}
	// …and it IS lowered whenever a usable domain has a smaller count: an iteration that goes on to the next domain passed
	// "not usable", "not smaller", or one of the lowering edges
	if t, _, ok := w.BlockLits(min.Block()); ok && regexp.MustCompile(`^next\(range\(\$0\.domains\)\)#0$`).MatchString(t.Expr) && t.Pol {
		c := w.GateCut(fn, G(`-^\(\*scheduling\.Requirement\)\.Has\(\$1, next\(range\(\$0\.domains\)\)#1\)$`, `-^next\(range\(\$0\.domains\)\)#2 < phi\(`, `+^phi\(.*\) < next\(range\(\$0\.domains\)\)#2$`))
		for i, e := range min.Edges {
			if _, isC := e.(*ssa.Const); isC || e == ssa.Value(min) {
				continue
			}
			pred := min.Block().Preds[i]
			for j, sc := range pred.Succs {
				if sc == min.Block() {
					c.Edges[core.EdgeKey{From: pred, Succ: j}] = true
				}
			}
		}
		if core.Reach([]*ssa.BasicBlock{min.Block().Succs[0]}, c)[min.Block()] {
			out = append(out, core.Bad(id, "PROV", construct, w.InstrPos(min), "a usable domain with a smaller count can be passed over without lowering the running minimum: the global minimum is overstated"))
		}
	} else {
		out = append(out, core.Bad(id, "PROV", construct, w.InstrPos(min), "the running minimum is not carried by the loop over the group's domains (idiom not recognised)"))
	}
	// what is returned after the loop is that minimum (or the forced 0)
	returned := false
	for _, b := range fn.Blocks {
		if len(b.Instrs) == 0 {
			continue
		}
		ret, ok := b.Instrs[len(b.Instrs)-1].(*ssa.Return)
		if !ok || len(ret.Results) != 1 {
			continue
		}
		switch x := ret.Results[0].(type) {
		case *ssa.Phi:
			for _, e := range x.Edges {
				if e == ssa.Value(min) {
					returned = true
				}
			}
			if x == min {
				returned = true
			}
		}
	}
	if !returned {
		out = append(out, core.Bad(id, "PROV", construct, w.InstrPos(min), "the running minimum is not what domainMinCount returns"))
	}
	// minDomains: the comparison is reached exactly from the `minDomains != nil` edges
	var cmp *ssa.BinOp
	for _, b := range fn.Blocks {
		for _, in := range b.Instrs {
			if bo, ok := in.(*ssa.BinOp); ok && regexp.MustCompile(`\$0\.minDomains`).MatchString(w.Render(bo.Y)) && !regexp.MustCompile(`nil`).MatchString(w.Render(bo.Y)) {
				if _, isPhi := bo.X.(*ssa.Phi); isPhi {
					cmp = bo
				}
			}
		}
	}
	if cmp == nil {
		out = append(out, core.Bad(id, "PROV", construct, w.Pos(fn.Pos()), "the comparison of the usable-domain count with minDomains was not found"))
	} else {
		set := w.GateCut(fn, G(`-^\$0\.minDomains == nil$`))
		if len(set.Edges) == 0 {
			out = append(out, core.Bad(id, "PROV", construct, w.InstrPos(cmp), "no test of minDomains against nil found"))
		} else if core.InstrReachable(cmp, set) {
			out = append(out, core.Bad(id, "PROV", construct, w.InstrPos(cmp), "minDomains is compared on a path on which it was not found set"))
		}
		// from every `minDomains != nil` edge no return is reached without evaluating the comparison
		skip := core.NewCut()
		skip.Instrs[cmp.Block().Instrs[len(cmp.Block().Instrs)-1]] = true
		for k := range set.Edges {
			for b := range core.Reach([]*ssa.BasicBlock{k.From.Succs[k.Succ]}, skip) {
				if b == cmp.Block() || len(b.Instrs) == 0 {
					continue
				}
				if _, isRet := b.Instrs[len(b.Instrs)-1].(*ssa.Return); isRet {
					out = append(out, core.Bad(id, "PROV", construct, w.InstrPos(cmp), "a set minDomains does not lead to the comparison with the number of usable domains: the global minimum is not forced to 0 when there are fewer domains than minDomains"))
				}
			}
		}
	}
	if len(out) == 0 {
		out = append(out, core.OK(id, "PROV", construct, updates, "running minimum over pod-usable domains, lowered only by a smaller count; minDomains consulted whenever set"))
	}
	return out
}

func c02RulesBase(tier string) []Rule {
	const (
		tp    = "(*sched.Topology)."
		tg    = "(*sched.TopologyGroup)."
		own   = `next\(range\(\$0\.topologyGroups\)\)#2`
		inv   = `next\(range\(\$0\.inverseTopologyGroups\)\)#2`
		opts  = `scheduling\.NewRequirement\(\$0\.Key, "DoesNotExist", nil\)`
		ins   = `^call \(\*scheduling\.Requirement\)\.Insert\(` + opts + `, &local<\[1\]string>\[:\]\)$`
		skewH = `-^\$0\.maxSkew < phi\(\$0\.domains\[.*\]\|\(\$0\.domains\[.*\] \+ 1\)\)$`
		skew  = `-^\$0\.maxSkew < \(phi\(\$0\.domains\[.*\](#0)?\|\(\$0\.domains\[.*\](#0)? \+ 1\)\) - \(\*sched\.TopologyGroup\)\.domainMinCount\(\$0, \$2\)\)$`
	)
	return []Rule{
		// ---- (1) admission
		ITER{ID: "C02.ITER1", Fn: tp + "getMatchingTopologies", Loop: `+^next\(range\(\$0\.topologyGroups\)\)#0$`, Gates: gates(
			G(`instr:^call append\(`, `-^\(\*sched\.TopologyGroup\)\.IsOwnedBy\(`+own+`, \$1\.ObjectMeta\.UID\)$`),
		), Note: "every group the pod owns is matched"},
		ITER{ID: "C02.ITER2", Fn: tp + "getMatchingTopologies", Loop: `+^next\(range\(\$0\.inverseTopologyGroups\)\)#0$`, Gates: gates(
			G(`instr:^call append\(`, `-^\(\*sched\.TopologyGroup\)\.Counts\(`+inv+`, \$1, \$2, \$3, \$4\)$`),
		), Note: "every inverse anti-affinity group that counts the pod is matched — also when the pod carries the same term itself"},
		core.Custom{ID: "C02.PROV1", Kind: "PROV", Run: func(w *core.World, id string) []core.Result {
			f := tp + "getMatchingTopologies"
			rs := core.InstrPresent(w, id, "PROV", f, `^store &local<\[1\]\*sched\.TopologyGroup>\[0\] = `+own+`$`, 1, "the owned group itself is appended")
			rs = append(rs, core.InstrPresent(w, id, "PROV", f, `^store &local<\[1\]\*sched\.TopologyGroup>\[0\] = `+inv+`$`, 1, "the inverse group itself is appended")...)
			rs = append(rs, core.InstrPresent(w, id, "PROV", f, `^return phi\(phi↺\|append\(phi↺, &local<\[1\]\*sched\.TopologyGroup>\[:\]\)\|phi\(nil\|phi↺\|append\(…, …\)\)\)$`, 1, "both lists are returned")...)
			a := tp + "AddRequirements"
			rs = append(rs, core.InstrPresent(w, id, "PROV", a, `^call \(\*sched\.Topology\)\.getMatchingTopologies\(\$0, \$1, \$2, \$4, \$5\)$`, 1, "matching is evaluated for the node's requirements and taints")...)
			rs = append(rs, core.InstrPresent(w, id, "PROV", a, `^call \(scheduling\.Requirements\)\.Get\(\$3, .*\.Key\)$`, 1, "pod domains from the pod's requirements")...)
			rs = append(rs, core.InstrPresent(w, id, "PROV", a, `^call \(scheduling\.Requirements\)\.Get\(\$4, .*\.Key\)$`, 1, "node domains from the node's requirements")...)
			rs = append(rs, core.InstrPresent(w, id, "PROV", a, `^call \(\*sched\.TopologyGroup\)\.Get\(.*, \$1, phi\(\(scheduling\.Requirements\)\.Get\(\$3, .*\)\|scheduling\.NewRequirement\(.*"Exists", nil\)\), phi\(\(scheduling\.Requirements\)\.Get\(\$4, .*\)\|scheduling\.NewRequirement\(.*"Exists", nil\)\)\)$`, 1, "the group is asked with (pod, podDomains, nodeDomains)")...)
			return rs
		}},
		ITER{ID: "C02.ITER3", Fn: tp + "AddRequirements", Loop: `+^\(phi\(-1\|\(phi↺ \+ 1\)\) \+ 1\) < len\(\(\*sched\.Topology\)\.getMatchingTopologies\(.*\)\)$`, Gates: gates(
			G(`instr:^call \(scheduling\.Requirements\)\.Add\(scheduling\.NewRequirements\(\(scheduling\.Requirements\)\.Values\(\$4\)\), &local<\[1\]\*scheduling\.Requirement>\[:\]\)$`),
		), Note: "every matching topology narrows the result"},
		IMPL{ID: "C02.IMPL1", Fn: tp + "AddRequirements", Lit: `+^\(\*scheduling\.Requirement\)\.Len\(\(\*sched\.TopologyGroup\)\.Get\(.*\)#0\) == 0$`, Not: core.RetOK, Note: "no admissible domain ⇒ error"},

		// ---- (2) commit
		core.Custom{ID: "C02.PROV2", Kind: "PROV", Run: func(w *core.World, id string) []core.Result {
			rs := core.InstrPresent(w, id, "PROV", "(*sched.ExistingNode).Add", `^call \(\*sched\.Topology\)\.Record\(\$0\.topology, \$2, \$0\.cachedTaints, \$4, nil\)$`, 1, "placement on a node is recorded with the node's taints and the computed requirements")
			rs = append(rs, core.InstrPresent(w, id, "PROV", "(*sched.NodeClaim).Add", `^call \(\*sched\.Topology\)\.Record\(\$0\.topology, \$2, \$0\.NodeClaimTemplate\.NodeClaim\.Spec\.Taints, \$4, &local<\[1\]opkg/option\.Function\[scheduling\.CompatibilityOptions\]>\[:\]\)$`, 1, "placement on a new claim is recorded likewise")...)
			rs = append(rs, core.ArgProvenance(w, id, "(*sched.Scheduler).addToExistingNode", `^call \(\*sched\.ExistingNode\)\.Add\(`, 4, `^\^?\(\*sched\.ExistingNode\)\.CanAdd\(.*\)#0$`, "requirements recorded = requirements admitted")...)
			rs = append(rs, core.ArgProvenance(w, id, "(*sched.Scheduler).addToInflightNode", `^call \(\*sched\.NodeClaim\)\.Add\(`, 4, `^\^?\(\*sched\.NodeClaim\)\.CanAdd\(.*\)#0$`, "requirements recorded = requirements admitted")...)
			return rs
		}},
		DOM{ID: "C02.DOM1", Fn: "(*sched.NodeClaim).Add", Sink: `^call \(\*sched\.Topology\)\.Record\(`, Gates: gates(
			G(`instr:^call \(\*sched\.Topology\)\.Register\(\$0\.topology, "kubernetes\.io/hostname", \$0\.hostname\)$`),
		), Note: "the claim's hostname domain exists before counts are recorded"},
		ITER{ID: "C02.ITER4", Fn: tp + "Record", Loop: `+^next\(range\(\$0\.topologyGroups\)\)#0$`, Gates: gates(
			G(`instr:^call \(\*sched\.TopologyGroup\)\.Record\(`+own+`, `, `-^\(\*sched\.TopologyGroup\)\.Counts\(`+own+`, \$1, \$2, \$3, \$4\)$`,
				`-^\(\*scheduling\.Requirement\)\.Len\(\(scheduling\.Requirements\)\.Get\(\$3, `+own+`\.Key\)\) == 1$`),
		), Note: "a counting pod is recorded (unless the domain is still undetermined for spread/affinity)"},
		DOM{ID: "C02.DOM2", Fn: tp + "Record", Sink: `^call \(\*sched\.TopologyGroup\)\.Record\(` + own + `, \(\*scheduling\.Requirement\)\.Values\(`, Gates: gates(
			G(`+^` + own + `\.Type == 2$`),
		), Note: "all possible domains are blocked only for anti-affinity groups…"},
		POST{ID: "C02.POST1", Fn: tp + "Record", FromLit: `+^` + own + `\.Type == 2$`,
			Must: []string{`^call \(\*sched\.TopologyGroup\)\.Record\(` + own + `, \(\*scheduling\.Requirement\)\.Values\(\(scheduling\.Requirements\)\.Get\(\$3, next\(.*\)#2\.Key\)\)\)$`},
			Note: "…and for those it is always done, whatever the number of candidate domains"},
		ITER{ID: "C02.ITER5", Fn: tp + "Record", Loop: `+^next\(range\(\$0\.inverseTopologyGroups\)\)#0$`, Gates: gates(
			G(`instr:^call \(\*sched\.TopologyGroup\)\.Record\(`+inv+`, \(\*scheduling\.Requirement\)\.Values\(\(scheduling\.Requirements\)\.Get\(\$3, next\(.*\)#2\.Key\)\)\)$`,
				`-^\(\*sched\.TopologyGroup\)\.IsOwnedBy\(`+inv+`, \$1\.ObjectMeta\.UID\)$`),
		), Note: "a pod carrying an anti-affinity term marks every domain it may land in"},
		core.Custom{ID: "C02.REG1", Kind: "REG", Run: func(w *core.World, id string) []core.Result {
			rs := core.ConstIs(w, id, "controllers/provisioning/scheduling", "TopologyTypePodAntiAffinity", "2", "TopologyTypePodAntiAffinity")
			for _, f := range []string{"Register", "Unregister"} {
				rs = append(rs, core.InstrPresent(w, id, "REG", tp+f, `^call \(\*sched\.TopologyGroup\)\.`+f+`\(`+own+`, &local<\[1\]string>\[:\]\)$`, 1, f+" reaches the own groups")...)
				rs = append(rs, core.InstrPresent(w, id, "REG", tp+f, `^call \(\*sched\.TopologyGroup\)\.`+f+`\(`+inv+`, &local<\[1\]string>\[:\]\)$`, 1, f+" reaches the inverse groups")...)
			}
			rs = append(rs, core.InstrPresent(w, id, "REG", tg+"Record", `^mapupdate \$0\.domains\[\$1\[.*\]\] = \(\$0\.domains\[\$1\[.*\]\] \+ 1\)$`, 1, "Record increments the domain's count")...)
			rs = append(rs, core.InstrPresent(w, id, "REG", tg+"Record", `^call \(apim/util/sets\.Set\[string\]\)\.Delete\(\$0\.emptyDomains, `, 1, "…and the domain stops being empty")...)
			return rs
		}},

		// ---- (3) dispatch
		core.Custom{ID: "C02.REG2", Kind: "REG", Run: c02GetDispatch},

		// ---- (4) spread
		DOM{ID: "C02.DOM3", Fn: tg + "nextDomainTopologySpread", Sink: `^call \(apim/util/sets\.Set\[string\]\)\.Insert\(apim/util/sets\.New\[string\]\(nil\), &local<\[1\]string>\[:\]\)$`, Min: 3, Gates: gates(
			G(skewH, skew),
		), Note: "valid ⇒ count(+self) − min ≤ maxSkew"},
		core.Custom{ID: "C02.PHI1", Kind: "PROV", Run: c02SpreadChoice},
		core.Custom{ID: "C02.PHI2", Kind: "PROV", Run: c02MinCount},
		TABLE{ID: "C02.TT1", Fn: tg + "selects", Rows: [][]string{
			{`+(apim/util/sets.Set[string]).Has($0.namespaces, $1.ObjectMeta.Namespace)`, `=> iface:(apim/labels.Selector).Matches($0.selector, <apim/labels.Set>$1.ObjectMeta.Labels)`},
			{`-(apim/util/sets.Set[string]).Has($0.namespaces, $1.ObjectMeta.Namespace)`, `=> false`},
		}},

		// what a group counts: one requirement set per OR-ed node-affinity term, each built in a set of its own
		core.Custom{ID: "C02.PROV5", Kind: "PROV", Run: func(w *core.World, id string) []core.Result {
			const f = "sched.MakeTopologyNodeFilter"
			rs := core.ArgProvenanceN(w, id, f, `^call \(scheduling\.Requirements\)\.Add\(`, 0, `^scheduling\.NewRequirements\(nil\)$`, "requirements of a term are added to a fresh set, never into the shared node-selector set (OR-ed terms must not intersect each other)", 2)
			rs = append(rs, core.InstrPresent(w, id, "PROV", f, `^store &local<\[1\]scheduling\.Requirements>\[0\] = scheduling\.NewRequirements\(nil\)$`, 1, "the fresh set is what the filter keeps for the term")...)
			return rs
		}},
		// group identity: repeated selector expressions must not change the hash (Update appends matchLabelKeys again)
		core.Custom{ID: "C02.PROV6", Kind: "PROV", Run: func(w *core.World, id string) []core.Result {
			const f = "sched.hashSelector"
			rs := core.InstrPresent(w, id, "PROV", f, `^call \(apim/util/sets\.Set\[uint64\]\)\.Insert\(apim/util/sets\.New\[uint64\]\(nil\), &local<\[1\]uint64>\[:\]\)$`, 1, "expression hashes are collected in a set (duplicates collapse)")
			rs = append(rs, core.InstrPresent(w, id, "PROV", f, `^store &local<\[2\]any>\[0\] = apim/util/sets\.New\[uint64\]\(nil\)$`, 1, "…and that set is what is hashed")...)
			return rs
		}},

		// groups are memoised by hash in two maps (own and inverse): a miss in one map inserts into that same map
		core.Custom{ID: "C02.PROV7", Kind: "PROV", Run: func(w *core.World, id string) []core.Result {
			rs := core.LookupInsertSameMap(w, id, "PROV", tp+"updateInverseAntiAffinity", 1, "inverse anti-affinity groups are looked up and registered in inverseTopologyGroups")
			return append(rs, core.LookupInsertSameMap(w, id, "PROV", tp+"Update", 1, "a pod's own groups are looked up and registered in topologyGroups")...)
		}},
		// ---- (5) anti-affinity / affinity
		DOM{ID: "C02.DOM4", Fn: tg + "nextDomainAntiAffinity", Sink: ins, Min: 3, Gates: gates(
			G(`+^\$0\.domains\[\(\*scheduling\.Requirement\)\.Values\(\$2\)\[0\]\] == 0$`, `+^\(apim/util/sets\.Set\[string\]\)\.Has\(\$0\.emptyDomains, \(\*scheduling\.Requirement\)\.Values\(\$2\)\[.*\]\)$`, `+^next\(range\(\$0\.emptyDomains\)\)#0$`),
			G(`+^\$0\.Key == "kubernetes\.io/hostname"$`, `+^\(\*scheduling\.Requirement\)\.Has\(\$1, `),
		), Note: "offered ⇒ no matching pod in the domain, and (outside the single-host case) the pod itself may use it"},
		core.Custom{ID: "C02.PROV3", Kind: "PROV", Run: func(w *core.World, id string) []core.Result {
			f := tg + "nextDomainAntiAffinity"
			rs := core.InstrPresent(w, id, "PROV", f, `^store &local<\[1\]string>\[0\] = next\(range\(\$0\.emptyDomains\)\)#1$`, 1, "in the scan, the domain offered is the empty domain being visited")
			rs = append(rs, core.InstrPresent(w, id, "PROV", f, `^store &local<\[1\]string>\[0\] = \(\*scheduling\.Requirement\)\.Values\(\$2\)\[.*\]$`, 2, "otherwise it is the node domain that was tested")...)
			return rs
		}},
		DOM{ID: "C02.DOM5", Fn: tg + "nextDomainAffinity", Sink: ins, Min: 6, Gates: gates(
			// a matching pod is there, or this is the bootstrap (self-selecting ∧ (nothing placed ∨ no compatible domain has a match))
			G(`+^0 < \$0\.domains\[.*\](#0)?$`, `+^\(\*sched\.TopologyGroup\)\.selects\(\$0, \$1\)$`),
			G(`+^0 < \$0\.domains\[.*\](#0)?$`, `+^len\(\$0\.domains\) == len\(\$0\.emptyDomains\)$`, `-^\(\*sched\.TopologyGroup\)\.anyCompatiblePodDomain\(\$0, \$2\)$`),
			// and the pod's own requirements allow the domain
			G(`+^\(\*scheduling\.Requirement\)\.Has\(\$2, `, `+^\(\*scheduling\.Requirement\)\.Has\(\(\*scheduling\.Requirement\)\.Intersection\(\$2, \$3\), `),
		), Note: "offered ⇒ a match exists there, or bootstrap; always within the pod's domains"},
		MPT{ID: "C02.MPT1", Fn: tg + "anyCompatiblePodDomain", Ret: core.RetTrue, Gates: gates(
			G(`+^\(\*scheduling\.Requirement\)\.Has\(\$1, next\(range\(\$0\.domains\)\)#1\)$`), G(`+^0 < \$0\.domains\[next\(range\(\$0\.domains\)\)#1\]$`),
		)},
		MPT{ID: "C02.MPT2", Fn: tg + "anyCompatiblePodDomain", Ret: core.RetFalse, Gates: gates(G(`-^next\(range\(\$0\.domains\)\)#0$`)), Note: "'no compatible match' only after scanning every domain"},

		// ---- (6) refresh after relaxation / re-queue; seeding of inverse groups
		POST{ID: "C02.POST2", Fn: "(*sched.Scheduler).trySchedule", FromLit: `+^\(\*sched\.Preferences\)\.Relax\(\$0\.preferences, \$2\)$`,
			Must: []string{`^call \(\*sched\.Topology\)\.Update\(\$0\.topology, \$2\)$`}, Note: "a relaxed pod's topology groups are rebuilt before it is tried again"},
		POST{ID: "C02.POST3", Fn: "(*sched.Scheduler).trySchedule", FromLit: `+^\(\*sched\.Preferences\)\.Relax\(\$0\.preferences, \$2\)$`,
			Must: []string{`^call \(\*sched\.Scheduler\)\.updateCachedPodData\(\$0, \$2\)$`}, Note: "…and its cached requirements refreshed"},
		DOM{ID: "C02.DOM6", Fn: "(*sched.Scheduler).Solve", Sink: `^call \(\*sched\.Queue\)\.Push\(`, Gates: gates(
			G(`instr:^call \(\*sched\.Topology\)\.Update\(\$0\.topology, `),
			G(`instr:^call \(\*sched\.Scheduler\)\.updateCachedPodData\(\$0, `),
		), Note: "a pod is re-queued with its original constraints restored in the topology"},
		core.Custom{ID: "C02.PROV4", Kind: "PROV", Run: func(w *core.World, id string) []core.Result {
			u := tp + "updateInverseAffinities"
			rs := core.InstrPresent(w, id, "PROV", u, `^call \(\*state\.Cluster\)\.ForPodsWithAntiAffinity\(\$0\.cluster, closure:`, 1, "inverse groups are seeded from every anti-affinity pod the cluster tracks")
			return rs
		}},
		MPT{ID: "C02.MPT3", Fn: "@arg:" + tp + "updateInverseAffinities|^call \\(\\*state\\.Cluster\\)\\.ForPodsWithAntiAffinity\\(|1", Ret: core.RetAny, Gates: gates(
			G(`instr:^call \(\*sched\.Topology\)\.updateInverseAntiAffinity\(`, `+^\(apim/util/sets\.Set\[string\]\)\.Has\(\^\$0\.excludedPods, `),
		), Note: "only excluded pods are skipped"},
		core.Custom{ID: "C02.MPT4", Kind: "PROV", Run: func(w *core.World, id string) []core.Result {
			return core.InstrAbsent(w, id, "PROV", "@arg:"+tp+"updateInverseAffinities|^call \\(\\*state\\.Cluster\\)\\.ForPodsWithAntiAffinity\\(|1", `^return false$`, "the walk over anti-affinity pods never stops early")
		}},
	}
}

// C02.REG2: TopologyGroup.Get has a case for every TopologyType constant and its default panics.
func c02GetDispatch(w *core.World, id string) []core.Result {
	const fnName = "(*sched.TopologyGroup).Get"
	fn := w.Fn(fnName)
	if fn == nil {
		return []core.Result{core.Anchor(id, "REG", fnName)}
	}
	construct := "REG:" + fnName
	var consts []string
	for path, p := range w.PkgByPath {
		if !strings.HasSuffix(path, "controllers/provisioning/scheduling") || p.Types == nil {
			continue
		}
		for _, n := range p.Types.Scope().Names() {
			if c, ok := p.Types.Scope().Lookup(n).(*types.Const); ok && strings.HasSuffix(c.Type().String(), ".TopologyType") {
				consts = append(consts, c.Val().ExactString())
			}
		}
	}
	if len(consts) < 3 {
		return []core.Result{core.Anchor(id, "REG", "TopologyType constants")}
	}
	re := regexp.MustCompile(`^\$0\.Type == (\d+)$`)
	got := map[string]bool{}
	for _, b := range fn.Blocks {
		t, _, ok := w.BlockLits(b)
		if ok {
			if m := re.FindStringSubmatch(t.Expr); m != nil {
				got[m[1]] = true
			}
		}
	}
	var out []core.Result
	for _, c := range consts {
		if !got[c] {
			out = append(out, core.Bad(id, "REG", construct, w.Pos(fn.Pos()), "TopologyType "+c+" has no case in TopologyGroup.Get"))
		}
	}
	panics := 0
	for _, b := range fn.Blocks {
		for _, in := range b.Instrs {
			if _, ok := in.(*ssa.Panic); ok {
				panics++
			}
		}
	}
	if panics == 0 {
		out = append(out, core.Bad(id, "REG", construct, w.Pos(fn.Pos()), "an unknown TopologyType no longer fail-stops"))
	}
	want := map[string]string{"0": "nextDomainTopologySpread", "1": "nextDomainAffinity", "2": "nextDomainAntiAffinity"}
	for c, f := range want {
		sites := w.Sites(fn, regexp.MustCompile(`^call \(\*sched\.TopologyGroup\)\.`+f+`\(`), false)
		if len(sites) != 1 {
			out = append(out, core.Bad(id, "REG", construct, w.Pos(fn.Pos()), f+" is not dispatched exactly once"))
			continue
		}
		ok := false
		for _, l := range w.DominatingLits(sites[0]) {
			if l == "+$0.Type == "+c {
				ok = true
			}
		}
		if !ok {
			out = append(out, core.Bad(id, "REG", construct, w.InstrPos(sites[0]), fmt.Sprintf("%s is not dispatched under TopologyType %s", f, c)))
		}
	}
	if len(out) == 0 {
		out = append(out, core.OK(id, "REG", construct, len(consts), fmt.Sprintf("%d TopologyType constants, all dispatched to their own selector; default panics", len(consts))))
	}
	return out
}

// C02.PHI1: the domain returned as the spread choice (the `In` requirement) is only ever assigned on edges that passed
// the skew test.
func c02SpreadChoice(w *core.World, id string) []core.Result {
	const fnName = "(*sched.TopologyGroup).nextDomainTopologySpread"
	fn := w.Fn(fnName)
	if fn == nil {
		return []core.Result{core.Anchor(id, "PROV", fnName)}
	}
	construct := "PROV:" + fnName + ":choice"
	gate := G(`-^\$0\.maxSkew < \(phi\(\$0\.domains\[.*\](#0)?\|\(\$0\.domains\[.*\](#0)? \+ 1\)\) - \(\*sched\.TopologyGroup\)\.domainMinCount\(\$0, \$2\)\)$`)
	cut := w.GateCut(fn, gate)
	var chosen *ssa.Phi
	for _, s := range w.Sites(fn, regexp.MustCompile(`^store &local<\[1\]string>\[0\] = phi\(`), false) {
		if p, ok := s.(*ssa.Store).Val.(*ssa.Phi); ok {
			chosen = p
		}
	}
	if chosen == nil {
		return []core.Result{core.Bad(id, "PROV", construct, w.Pos(fn.Pos()), "the chosen domain is no longer a loop-carried value stored into the returned requirement (idiom not recognised)")}
	}
	n := 0
	var out []core.Result
	seen := map[*ssa.Phi]bool{}
	var visit func(p *ssa.Phi)
	visit = func(p *ssa.Phi) {
		if seen[p] {
			return
		}
		seen[p] = true
		for i, e := range p.Edges {
			if q, ok := e.(*ssa.Phi); ok {
				visit(q)
				continue
			}
			if c, ok := e.(*ssa.Const); ok && c.Value != nil && c.Value.ExactString() == `""` {
				continue
			}
			n++
			if core.EdgeReachable(p.Block().Preds[i], p.Block(), cut) {
				out = append(out, core.Bad(id, "PROV", construct, w.InstrPos(p), "domain `"+clipStr(w.RenderD(e, 3), 60)+"` can become the spread choice without passing count − min ≤ maxSkew"))
			}
		}
	}
	visit(chosen)
	if n < 2 {
		return []core.Result{core.Bad(id, "PROV", construct, w.Pos(fn.Pos()), fmt.Sprintf("vacuous: %d assignments of the choice found, 2 confirmed by hand", n))}
	}
	if len(out) == 0 {
		out = append(out, core.OK(id, "PROV", construct, n, fmt.Sprintf("%d assignments, all after the skew test", n)))
	}
	return out
}

// C02.PHI2: domainMinCount — the number compared with minDomains counts exactly the domains the pod can use (incremented
// only under domains.Has(domain)), the comparison forces the minimum to 0, and hostname spreads use 0.
func c02MinCount(w *core.World, id string) []core.Result {
	const fnName = "(*sched.TopologyGroup).domainMinCount"
	fn := w.Fn(fnName)
	if fn == nil {
		return []core.Result{core.Anchor(id, "PROV", fnName)}
	}
	construct := "PROV:" + fnName
	var out []core.Result
	// the comparison
	var cmp *ssa.BinOp
	for _, b := range fn.Blocks {
		for _, in := range b.Instrs {
			if bo, ok := in.(*ssa.BinOp); ok && strings.Contains(w.Render(bo.Y), "$0.minDomains") {
				cmp = bo
			}
		}
	}
	if cmp == nil {
		return []core.Result{core.Bad(id, "PROV", construct, w.Pos(fn.Pos()), "the comparison with minDomains was not found")}
	}
	cnt, ok := cmp.X.(*ssa.Phi)
	if !ok {
		return []core.Result{core.Bad(id, "PROV", construct, w.InstrPos(cmp), "minDomains is compared with `"+clipStr(w.Render(cmp.X), 60)+"`, not with a count of the domains the pod can use")}
	}
	cut := w.GateCut(fn, G(`+^\(\*scheduling\.Requirement\)\.Has\(\$1, next\(range\(\$0\.domains\)\)#1\)$`))
	inc := 0
	for i, e := range cnt.Edges {
		switch x := e.(type) {
		case *ssa.Const:
			if x.Value == nil || x.Value.ExactString() != "0" {
				out = append(out, core.Bad(id, "PROV", construct, w.InstrPos(cnt), "the supported-domain count does not start at 0"))
			}
		case *ssa.BinOp:
			inc++
			if core.EdgeReachable(cnt.Block().Preds[i], cnt.Block(), cut) {
				out = append(out, core.Bad(id, "PROV", construct, w.InstrPos(x), "the supported-domain count is incremented for a domain the pod's requirements do not allow"))
			}
		case *ssa.Phi:
			if x != cnt {
				out = append(out, core.Bad(id, "PROV", construct, w.InstrPos(cnt), "unrecognised update of the supported-domain count"))
			}
		}
	}
	if inc == 0 {
		out = append(out, core.Bad(id, "PROV", construct, w.InstrPos(cnt), "the supported-domain count is never incremented"))
	}
	// the edge on which "fewer usable domains than minDomains" holds makes the returned minimum 0
	forced := false
	for _, b := range fn.Blocks {
		t, _, ok := w.BlockLits(b)
		if !ok || len(b.Succs) != 2 || !regexp.MustCompile(`^phi\(0\|.*\) < \$0\.minDomains$`).MatchString(t.Expr) || !t.Pol {
			continue
		}
		mid := b.Succs[0]
		if len(mid.Succs) != 1 {
			continue
		}
		join := mid.Succs[0]
		for k, p := range join.Preds {
			if p != mid {
				continue
			}
			for _, in := range join.Instrs {
				if phi, ok := in.(*ssa.Phi); ok {
					if c, ok := phi.Edges[k].(*ssa.Const); ok && c.Value != nil && c.Value.ExactString() == "0" {
						// and that phi is what is returned
						if ret, ok := join.Instrs[len(join.Instrs)-1].(*ssa.Return); ok && len(ret.Results) == 1 && ret.Results[0] == ssa.Value(phi) {
							forced = true
						}
					}
				}
			}
		}
	}
	if !forced {
		out = append(out, core.Bad(id, "PROV", construct, w.InstrPos(cmp), "when fewer usable domains than minDomains exist the global minimum is no longer forced to 0"))
	}
	out = append(out, dropOK(MPT{ID: id, Fn: fnName, Ret: core.RetSpec{Index: 0, Want: "any", Also: `^return 0$`}, Gates: gates(G(`+^\$0\.Key == "kubernetes\.io/hostname"$`))}.Check(w))...)
	if len(out) == 0 {
		out = append(out, core.OK(id, "PROV", construct, inc, "count over pod-usable domains; fewer than minDomains ⇒ 0; hostname ⇒ 0"))
	}
	return out
}

// ---------------------------------------------------------------------------------------------------------------------
// (7) what has been counted during a pass stays counted.
//
// Record adds a placement to the counts of the groups it finds in Topology.topologyGroups / inverseTopologyGroups, and
// admission reads the same groups again for every later pod. countDomains — the only other source of counts — sees the
// pods bound in the API, never the placements of the pass. So a group that leaves the registry (or is replaced by a
// freshly built one under the same hash), and a count that is reset inside a group, forget every placement made so far:
// the next pod is admitted against zeros. The facts decided:
//
//	C02.WMC1  the registries only grow: the three map fields of Topology are assigned in a struct under construction only;
//	          nobody deletes from / clears them or hands them to code that writes into them; an entry is written only
//	          where a lookup of the same map with the same key has just missed (insert-if-absent, never replace);
//	          domainGroups and the domain sets in it are not written at all once the Topology exists.
//	C02.WMC2  inside a group: `domains` / `emptyDomains` are assigned in a group under construction only; a count is only
//	          incremented, or set to 0 where a lookup of that domain has just missed; a domain is deleted by
//	          TopologyGroup.Unregister alone (reached from Topology.Unregister alone, which nothing calls during a pass);
//	          a domain is declared empty only where it was unknown; no group is overwritten as a whole.
//
// Both rules look at every function of the module, alias the maps through locals / captured variables / phis, and follow
// a map handed to a karpenter function that writes into its parameter (core.ParamWrites).

type c02Write struct {
	in      ssa.Instruction
	key     string    // "<struct>.<field>"
	op      string    // assign | update | delete | clear | call:<callee> | handoff:<callee>
	obj     ssa.Value // the map / set that is written (the field address for assign)
	through bool      // an element reached by indexing the field is written, not the field's own map
	fresh   bool      // assign: the struct is a literal under construction
}

var c02MutatorRe = regexp.MustCompile(`^(maps\.(Copy|DeleteFunc|Insert)(\[.*\])?|\(apim/util/sets\.Set\[.*\]\)\.(Insert|Delete|Clear|PopAny))$`)

func c02StructShort(t types.Type) string {
	n := core.NamedOf(t)
	if n == nil || n.Obj().Pkg() == nil {
		return ""
	}
	return core.Short(n.Obj().Pkg().Path() + "." + n.Obj().Name())
}

// c02StoresTo: the stores to a local, in its function and in the closures that capture it.
func c02StoresTo(a ssa.Value) []*ssa.Store {
	var out []*ssa.Store
	seen := map[ssa.Value]bool{}
	var visit func(v ssa.Value)
	visit = func(v ssa.Value) {
		if seen[v] || v.Referrers() == nil {
			return
		}
		seen[v] = true
		for _, r := range *v.Referrers() {
			switch x := r.(type) {
			case *ssa.Store:
				if x.Addr == v {
					out = append(out, x)
				}
			case *ssa.MakeClosure:
				if f, ok := x.Fn.(*ssa.Function); ok {
					for i, b := range x.Bindings {
						if b == v && i < len(f.FreeVars) {
							visit(f.FreeVars[i])
						}
					}
				}
			}
		}
	}
	visit(a)
	return out
}

// c02FieldOf: v is (an alias of) the value held in one of the wanted struct fields, or — through=true — an element
// reached from it by map lookup / range / indexing. Loads, locals (any store), captured variables, conversions and phis
// (any operand) are transparent. Another struct's field ends the walk: what hangs off a *TopologyGroup found in the
// registry is that group's state, not the registry's.
func c02FieldOf(w *core.World, v ssa.Value, want map[string]bool) (key string, through, ok bool) {
	seen := map[ssa.Value]bool{}
	var walk func(v ssa.Value, thr bool, depth int) (string, bool, bool)
	walk = func(v ssa.Value, thr bool, depth int) (string, bool, bool) {
		if v == nil || depth > 24 || seen[v] {
			return "", false, false
		}
		seen[v] = true
		switch x := v.(type) {
		case *ssa.FieldAddr:
			if k := c02StructShort(x.X.Type()) + "." + core.FieldNameOf(x); want[k] {
				return k, thr, true
			}
		case *ssa.Field:
			if n := core.NamedOf(x.X.Type()); n != nil {
				if st, isSt := n.Underlying().(*types.Struct); isSt && x.Field < st.NumFields() {
					if k := c02StructShort(x.X.Type()) + "." + st.Field(x.Field).Name(); want[k] {
						return k, thr, true
					}
				}
			}
		case *ssa.UnOp:
			if x.Op != token.MUL {
				return "", false, false
			}
			src := x.X
			if fv, isFV := src.(*ssa.FreeVar); isFV {
				if b := w.FreeVarBinding(fv); b != nil {
					src = b
				}
			}
			if a, isAlloc := src.(*ssa.Alloc); isAlloc {
				for _, st := range c02StoresTo(a) {
					if k, t, ok := walk(st.Val, thr, depth+1); ok {
						return k, t, true
					}
				}
				return "", false, false
			}
			return walk(src, thr, depth+1)
		case *ssa.FreeVar:
			return walk(w.FreeVarBinding(x), thr, depth+1)
		case *ssa.ChangeType:
			return walk(x.X, thr, depth+1)
		case *ssa.Convert:
			return walk(x.X, thr, depth+1)
		case *ssa.MakeInterface:
			return walk(x.X, thr, depth+1)
		case *ssa.Phi:
			for _, e := range x.Edges {
				if k, t, ok := walk(e, thr, depth+1); ok {
					return k, t, true
				}
			}
		case *ssa.Lookup:
			return walk(x.X, true, depth+1)
		case *ssa.Index:
			return walk(x.X, true, depth+1)
		case *ssa.IndexAddr:
			return walk(x.X, true, depth+1)
		case *ssa.Slice:
			return walk(x.X, thr, depth+1)
		case *ssa.Extract:
			return walk(x.Tuple, thr, depth+1)
		case *ssa.Next:
			if r, isRange := x.Iter.(*ssa.Range); isRange {
				return walk(r.X, true, depth+1)
			}
		}
		return "", false, false
	}
	return walk(v, false, 0)
}

// c02Writes lists every write to (or through) the wanted fields in the module's own code.
func c02Writes(w *core.World, want map[string]bool) []c02Write {
	var out []c02Write
	defer func() {
		if os.Getenv("KVERIF_DEBUG") != "" {
			for _, x := range out {
				fmt.Fprintf(os.Stderr, "DEBUG c02Writes %s %s through=%v fresh=%v %s: %s\n", x.key, x.op, x.through, x.fresh, core.FnName(x.in.Parent()), clipStr(w.RenderInstr(x.in), 110))
			}
		}
	}()
	isRef := func(t types.Type) bool {
		switch t.Underlying().(type) {
		case *types.Map, *types.Slice:
			return true
		}
		return false
	}
	for _, fn := range w.Fns {
		if core.IsTestSupport(fn) {
			continue
		}
		if fn.Synthetic != "" && !strings.Contains(fn.Synthetic, "instance") && fn.Parent() == nil {
			continue // wrappers and thunks repeat the sites of the wrapped function
		}
		for _, b := range fn.Blocks {
			for _, in := range b.Instrs {
				switch x := in.(type) {
				case *ssa.Store:
					switch a := x.Addr.(type) {
					case *ssa.FieldAddr:
						if k := c02StructShort(a.X.Type()) + "." + core.FieldNameOf(a); want[k] {
							fresh := false
							if root, _ := w.AddrRoot(a); root != nil {
								if al, isAlloc := root.(*ssa.Alloc); isAlloc {
									if p, isPtr := al.Type().Underlying().(*types.Pointer); isPtr {
										if _, isSt := p.Elem().Underlying().(*types.Struct); isSt {
											fresh = true
										}
									}
								}
							}
							out = append(out, c02Write{in: in, key: k, op: "assign", obj: a, fresh: fresh})
						}
					case *ssa.IndexAddr:
						if k, _, ok := c02FieldOf(w, a.X, want); ok {
							out = append(out, c02Write{in: in, key: k, op: "update", obj: a.X, through: true})
						}
					}
				case *ssa.MapUpdate:
					if k, thr, ok := c02FieldOf(w, x.Map, want); ok {
						out = append(out, c02Write{in: in, key: k, op: "update", obj: x.Map, through: thr})
					}
				case ssa.CallInstruction:
					c := x.Common()
					if len(c.Args) == 0 || c.IsInvoke() {
						continue
					}
					name := w.CalleeName(c)
					if bi, isB := c.Value.(*ssa.Builtin); isB {
						if (bi.Name() == "delete" || bi.Name() == "clear") && isRef(c.Args[0].Type()) {
							if k, thr, ok := c02FieldOf(w, c.Args[0], want); ok {
								out = append(out, c02Write{in: in, key: k, op: bi.Name(), obj: c.Args[0], through: thr})
							}
						}
						continue
					}
					if c02MutatorRe.MatchString(name) {
						if k, thr, ok := c02FieldOf(w, c.Args[0], want); ok {
							out = append(out, c02Write{in: in, key: k, op: "call:" + name, obj: c.Args[0], through: thr})
						}
						continue
					}
					if callee := c.StaticCallee(); callee != nil && core.IsKarpenterFn(callee) {
						for j := range w.ParamWrites(callee) {
							if j >= len(c.Args) || !isRef(c.Args[j].Type()) {
								continue
							}
							if k, thr, ok := c02FieldOf(w, c.Args[j], want); ok {
								out = append(out, c02Write{in: in, key: k, op: "handoff:" + name, obj: c.Args[j], through: thr})
							}
						}
					}
				}
			}
		}
	}
	return out
}

// c02OnMiss: `in` runs only where a comma-ok lookup of the map m has just missed — and, when key is given and the lookup
// is visible in the same function, it looked up that very key. The test may sit in an unexported helper (the engine's
// see-through), and `in` may sit in an unexported helper all of whose calls are made on such a miss.
// field is the field name m is held in (for the literal `-<x>.<field>[<k>]#1`). Returns the number of guarded sites bound
// (1, or the number of guarded calls of the helper the write sits in); 0 with the reason when the write is not guarded.
func c02OnMiss(w *core.World, in ssa.Instruction, m, key ssa.Value, field string) (int, string) {
	fn := in.Parent()
	mr := w.Render(m)
	guards, keyOK := 0, false
	other := ""
	for _, b := range fn.Blocks {
		if len(b.Instrs) == 0 || len(b.Succs) != 2 {
			continue
		}
		ifi, isIf := b.Instrs[len(b.Instrs)-1].(*ssa.If)
		if !isIf {
			continue
		}
		cond, neg := ifi.Cond, false
		for {
			u, isNot := cond.(*ssa.UnOp)
			if !isNot || u.Op != token.NOT {
				break
			}
			neg = !neg
			cond = u.X
		}
		ex, isEx := cond.(*ssa.Extract)
		if !isEx || ex.Index != 1 {
			continue
		}
		lk, isLk := ex.Tuple.(*ssa.Lookup)
		if !isLk || !lk.CommaOk || w.Render(lk.X) != mr {
			continue
		}
		miss := 1
		if neg {
			miss = 0
		}
		// with the miss edge removed, `in` must be unreachable
		c := core.NewCut()
		c.Edges[core.EdgeKey{From: b, Succ: miss}] = true
		if core.InstrReachable(in, c) {
			continue
		}
		guards++
		if key == nil || lk.Index == key || w.Render(lk.Index) == w.Render(key) {
			keyOK = true
		} else {
			other = clipStr(w.RenderD(lk.Index, 4), 50)
		}
	}
	if guards > 0 {
		if keyOK {
			return 1, ""
		}
		return 0, "the lookup that missed asked for another key (`" + other + "`)"
	}
	lenient := G(`-^.*\.` + regexp.QuoteMeta(field) + `\[.*\]#1$`)
	if w.GuardedBy(in, lenient) {
		return 1, ""
	}
	// the write was extracted: every call of the unexported function it sits in is made on a miss
	root := core.RootFn(fn)
	if root.Object() != nil && !root.Object().Exported() {
		calls, all := 0, true
		for _, caller := range w.CG().CallersOf(root) {
			if core.IsTestSupport(caller) {
				continue
			}
			for _, b := range caller.Blocks {
				for _, ci := range b.Instrs {
					call, isCall := ci.(ssa.CallInstruction)
					if !isCall || call.Common().StaticCallee() != root {
						continue
					}
					calls++
					all = all && w.GuardedBy(ci, lenient)
				}
			}
		}
		if calls > 0 && all {
			return calls, ""
		}
	}
	return 0, "it is not confined to the path on which a lookup of that map has just missed"
}

func c02FnPos(w *core.World, name string) string {
	if f := w.Fn(name); f != nil {
		return w.Pos(f.Pos())
	}
	return ""
}

// c02ActsFor: fn is one of the allowed functions, or an unexported function called by allowed functions only.
func c02ActsFor(w *core.World, fn *ssa.Function, allowed map[string]bool, depth int) bool {
	root := core.RootFn(fn)
	if allowed[core.FnName(root)] {
		return true
	}
	if depth > 2 || root.Object() == nil || root.Object().Exported() {
		return false
	}
	n := 0
	for _, c := range w.CG().CallersOf(root) {
		if core.IsTestSupport(c) {
			continue
		}
		n++
		if !c02ActsFor(w, c, allowed, depth+1) {
			return false
		}
	}
	return n > 0
}

// C02.WMC1 — the registries of a Topology only grow.
func c02RegistryGrowOnly(w *core.World, id string) []core.Result {
	const typ = "sched.Topology"
	fields := []string{"topologyGroups", "inverseTopologyGroups", "domainGroups"}
	have, _ := w.StructFields(typ)
	want := map[string]bool{}
	for _, f := range fields {
		found := false
		for _, h := range have {
			found = found || h == f
		}
		if !found {
			return []core.Result{core.Anchor(id, "WMC", typ+"."+f)}
		}
		want[typ+"."+f] = true
	}
	construct := "WMC:" + typ + ".{" + strings.Join(fields, ",") + "}"
	var out []core.Result
	built, inserts := map[string]int{}, map[string]int{}
	var facts []string
	for _, wr := range c02Writes(w, want) {
		field := strings.TrimPrefix(wr.key, typ+".")
		where := core.FnName(core.RootFn(wr.in.Parent()))
		r := clipStr(w.RenderInstr(wr.in), 120)
		bad := func(msg string) {
			out = append(out, core.Bad(id, "WMC", construct+"@"+where, w.InstrPos(wr.in), msg+" — `"+r+"` in "+where))
		}
		switch {
		case wr.op == "assign" && wr.fresh:
			built[field]++
		case wr.op == "assign":
			bad("Topology." + field + " is replaced on a live Topology: the groups (and the placements Record counted into them during this pass) that the old map held are gone for every later admission")
		case wr.op == "delete" || wr.op == "clear" || strings.HasPrefix(wr.op, "call:maps.DeleteFunc") || strings.HasSuffix(wr.op, ".Delete") || strings.HasSuffix(wr.op, ".Clear") || strings.HasSuffix(wr.op, ".PopAny"):
			if field == "domainGroups" {
				bad("an entry is removed from Topology.domainGroups (the universe of domains groups are built from) after construction")
			} else {
				bad("an entry is removed from Topology." + field + ": a group that leaves the registry takes the placements recorded into it during this pass with it — it is rebuilt by countDomains from the pods bound in the API only, so later pods are admitted against zero counts")
			}
		case strings.HasPrefix(wr.op, "handoff:") || strings.HasPrefix(wr.op, "call:"):
			bad("Topology." + field + " is handed to `" + wr.op[strings.Index(wr.op, ":")+1:] + "`, which writes into the map it is given: not an audited insert-if-absent")
		case wr.op == "update" && (field == "domainGroups" || wr.through):
			bad("Topology." + field + " is written after construction (the domain universe is fixed by buildDomainGroups before any group is built from it)")
		case wr.op == "update":
			mu := wr.in.(*ssa.MapUpdate)
			if k, why := c02OnMiss(w, mu, mu.Map, mu.Key, field); k == 0 {
				inserts[field]++
				bad("an entry of Topology." + field + " is written where a group with that hash may already be registered (" + why + "): the registered group, with the placements recorded during this pass, is replaced by one that counts only the pods bound in the API")
			} else {
				inserts[field] += k
				facts = append(facts, field+": insert-if-absent in "+where)
			}
		default:
			bad("unclassified write to Topology." + field + " (" + wr.op + ")")
		}
	}
	for _, f := range fields {
		if built[f] < 1 {
			out = append(out, core.Bad(id, "WMC", construct, c02FnPos(w, "sched.NewTopology"), "vacuous: no construction site assigns Topology."+f+" (1 confirmed by hand in NewTopology)"))
		}
	}
	for _, f := range fields[:2] {
		if inserts[f] < 1 {
			out = append(out, core.Bad(id, "WMC", construct, c02FnPos(w, "sched.NewTopology"), "vacuous: no insert-if-absent into Topology."+f+" found (1 confirmed by hand)"))
		}
	}
	for _, in := range c02WholeStores(w, typ) {
		out = append(out, core.Bad(id, "WMC", construct+"@"+core.FnName(core.RootFn(in.Parent())), w.InstrPos(in), "a Topology is overwritten as a whole (`"+clipStr(w.RenderInstr(in), 100)+"`): its registries are replaced on a live object"))
	}
	// the Topology itself: the scheduler, every in-flight claim and every existing node of a pass hold one and the same
	// object — the pointer is set where the holder is constructed and nowhere else
	holders := map[string]bool{"sched.Scheduler.topology": true, "sched.NodeClaim.topology": true, "sched.ExistingNode.topology": true}
	held := 0
	for _, wr := range c02Writes(w, holders) {
		where := core.FnName(core.RootFn(wr.in.Parent()))
		if wr.op == "assign" && wr.fresh {
			held++
			continue
		}
		out = append(out, core.Bad(id, "WMC", construct+"@"+where, w.InstrPos(wr.in), "the Topology a pass works on is exchanged on a live "+strings.TrimSuffix(strings.TrimPrefix(wr.key, "sched."), ".topology")+": admission and Record no longer meet in the same registries, the placements counted so far are invisible to what follows — `"+clipStr(w.RenderInstr(wr.in), 120)+"` in "+where))
	}
	if held < 3 {
		out = append(out, core.Bad(id, "WMC", construct, c02FnPos(w, "sched.NewTopology"), fmt.Sprintf("vacuous: %d constructor(s) store the shared *Topology into Scheduler / NodeClaim / ExistingNode, 3 confirmed by hand", held)))
	}
	// the domain sets held in domainGroups are filled while the universe is built, by nobody else
	out = append(out, dropOK(WMC{ID: id, Sink: `^(call|go|defer) \(sched\.TopologyDomainGroup\)\.Insert\(`, Allowed: []string{"sched.buildDomainGroups"}, Required: []string{"sched.buildDomainGroups"}}.Check(w))...)
	if len(out) == 0 {
		n := 0
		for _, f := range fields {
			n += built[f] + inserts[f]
		}
		n += held
		out = append(out, core.OK(id, "WMC", construct, n, fmt.Sprintf("%d write(s): assigned under construction only; entries inserted on a miss of the same key only; never deleted, cleared, replaced or handed to a writer", n), facts...))
	}
	return out
}

// C02.WMC2 — the counts inside a group only go up.
func c02GroupCountsKept(w *core.World, id string) []core.Result {
	const typ = "sched.TopologyGroup"
	const unreg = "(*sched.TopologyGroup).Unregister"
	have, _ := w.StructFields(typ)
	want := map[string]bool{}
	for _, f := range []string{"domains", "emptyDomains"} {
		found := false
		for _, h := range have {
			found = found || h == f
		}
		if !found {
			return []core.Result{core.Anchor(id, "WMC", typ+"."+f)}
		}
		want[typ+"."+f] = true
	}
	construct := "WMC:" + typ + ".{domains,emptyDomains}"
	var out []core.Result
	n := map[string]int{}
	for _, wr := range c02Writes(w, want) {
		field := strings.TrimPrefix(wr.key, typ+".")
		where := core.FnName(core.RootFn(wr.in.Parent()))
		r := clipStr(w.RenderInstr(wr.in), 120)
		bad := func(msg string) {
			out = append(out, core.Bad(id, "WMC", construct+"@"+where, w.InstrPos(wr.in), msg+" — `"+r+"` in "+where))
		}
		switch {
		case wr.op == "assign" && wr.fresh:
			n["built:"+field]++
		case wr.op == "assign":
			bad("TopologyGroup." + field + " is replaced on a live group: the placements counted into it during this pass are forgotten")
		case field == "domains" && wr.op == "update" && !wr.through:
			mu := wr.in.(*ssa.MapUpdate)
			if c02IsIncrement(w, mu) {
				n["inc"]++
				break
			}
			zero := false
			if c, isC := mu.Value.(*ssa.Const); isC && c.Value != nil && c.Value.ExactString() == "0" {
				zero = true
			}
			if !zero {
				bad("a domain count is overwritten with `" + clipStr(w.RenderD(mu.Value, 4), 50) + "`: counts may only be incremented, or start at 0 for a domain that was unknown")
			} else if k, why := c02OnMiss(w, mu, mu.Map, mu.Key, "domains"); k == 0 {
				n["zero-on-miss"]++
				bad("a domain count is set to 0 where the domain may already be counted (" + why + "): the placements recorded there during this pass are forgotten")
			} else {
				n["zero-on-miss"] += k
			}
		case field == "domains" && wr.op == "delete" && !wr.through:
			if c02ActsFor(w, wr.in.Parent(), map[string]bool{unreg: true}, 0) {
				n["unregister"]++
			} else {
				bad("a domain (with its count) is deleted from a group outside TopologyGroup.Unregister")
			}
		case field == "emptyDomains" && strings.HasSuffix(wr.op, ".Insert") && !wr.through:
			if k, why := c02OnMiss(w, wr.in, nil, nil, "domains"); k == 0 {
				n["empty-on-miss"]++
				bad("a domain is declared empty where it may already hold counted pods (" + why + "): anti-affinity offers it again")
			} else {
				n["empty-on-miss"] += k
			}
		case field == "emptyDomains" && strings.HasSuffix(wr.op, ".Delete") && !wr.through:
			n["nonempty"]++ // a domain stops being empty: Record, Unregister
		default:
			bad("unclassified write to TopologyGroup." + field + " (" + wr.op + "): counts may only be incremented, zero-initialised for an unknown domain, or dropped by Unregister")
		}
	}
	// no group is overwritten as a whole
	for _, in := range c02WholeStores(w, typ) {
		out = append(out, core.Bad(id, "WMC", construct+"@"+core.FnName(core.RootFn(in.Parent())), w.InstrPos(in), "a TopologyGroup is overwritten as a whole (`"+clipStr(w.RenderInstr(in), 100)+"`): the counts of the overwritten group are forgotten"))
	}
	mins := map[string]int{"built:domains": 1, "built:emptyDomains": 1, "inc": 1, "zero-on-miss": 2, "unregister": 1, "empty-on-miss": 2}
	for _, k := range []string{"built:domains", "built:emptyDomains", "inc", "zero-on-miss", "unregister", "empty-on-miss"} {
		if min := mins[k]; n[k] < min {
			out = append(out, core.Bad(id, "WMC", construct, c02FnPos(w, "sched.NewTopologyGroup"), fmt.Sprintf("vacuous: %d site(s) of kind %q found, %d confirmed by hand (idiom not recognised, or the mechanism moved)", n[k], k, min)))
		}
	}
	// who reaches Unregister
	out = append(out, dropOK(WMC{ID: id, Sink: `^(call|go|defer) \(\*sched\.TopologyGroup\)\.Unregister\(`, Allowed: []string{"(*sched.Topology).Unregister"}, Required: []string{"(*sched.Topology).Unregister"}}.Check(w))...)
	for _, r := range dropOK(WMC{ID: id, Sink: `^(call|go|defer) \(\*sched\.Topology\)\.Unregister\(`, Allowed: []string{}}.Check(w)) {
		r.Msg += " — Topology.Unregister drops a domain together with the placements counted in it from every group; no scheduling code calls it today, a new caller has to be audited (is the domain provably without placements of this pass?)"
		out = append(out, r)
	}
	if len(out) == 0 {
		total := 0
		var facts []string
		for k, v := range n {
			total += v
			facts = append(facts, fmt.Sprintf("%s ×%d", k, v))
		}
		sort.Strings(facts)
		out = append(out, core.OK(id, "WMC", construct, total, "counts are incremented, zero-initialised on a miss, or dropped by Unregister (which no scheduling code calls); nothing else writes them", facts...))
	}
	return out
}

// c02WholeStores: stores that overwrite a whole struct of the named type through a pointer (`*p = v`), locals excepted.
func c02WholeStores(w *core.World, typ string) []ssa.Instruction {
	var out []ssa.Instruction
	for _, fn := range w.Fns {
		if core.IsTestSupport(fn) {
			continue
		}
		if fn.Synthetic != "" && !strings.Contains(fn.Synthetic, "instance") && fn.Parent() == nil {
			continue
		}
		for _, b := range fn.Blocks {
			for _, in := range b.Instrs {
				st, isSt := in.(*ssa.Store)
				if !isSt {
					continue
				}
				p, isPtr := st.Addr.Type().Underlying().(*types.Pointer)
				if !isPtr {
					continue
				}
				if _, isNamed := types.Unalias(p.Elem()).(*types.Named); !isNamed || c02StructShort(p.Elem()) != typ {
					continue
				}
				if _, isAlloc := st.Addr.(*ssa.Alloc); isAlloc {
					continue // a local of struct type
				}
				out = append(out, in)
			}
		}
	}
	return out
}

// c02IsIncrement: m[k] = m[k] + <positive constant>
func c02IsIncrement(w *core.World, mu *ssa.MapUpdate) bool {
	bo, ok := mu.Value.(*ssa.BinOp)
	if !ok || bo.Op != token.ADD {
		return false
	}
	x, y := bo.X, bo.Y
	if _, isC := x.(*ssa.Const); isC {
		x, y = y, x
	}
	c, ok := y.(*ssa.Const)
	if !ok || c.Value == nil || c.Int64() <= 0 {
		return false
	}
	lk, ok := x.(*ssa.Lookup)
	if !ok || lk.CommaOk {
		return false
	}
	return (lk.X == mu.Map || w.Render(lk.X) == w.Render(mu.Map)) && (lk.Index == mu.Key || w.Render(lk.Index) == w.Render(mu.Key))
}
