package props

import (
	"fmt"
	"regexp"
	"sort"
	"strings"

	"kverif/core"

	"golang.org/x/tools/go/ssa"
)

func init() {
	core.Register(&core.Property{
		ID:    "C17",
		Title: "Scarce capacity is never over-committed in a scheduling pass",
		Explanation: "Decides the bookkeeping discipline, not the arithmetic. Reservations: (1) the only code that writes ReservationManager state is Reserve and Release, called only from NodeClaim.Add (via releaseReservedOfferings); " +
			"(2) Reserve decrements only when the host does not already hold the id, fail-stops below zero and always records the holder; Release increments only for a held id and removes the holder; CanReserve says yes only for a holder or non-zero capacity; the constructor keeps the minimum capacity per id, taken over every reserved offering of every NodePool's catalogue " +
			"(an offering's turn ends without the entry written only if it is not reserved or the entry is already no larger — availability or a zero capacity is no excuse — and no loop of the constructor is left early); " +
			"(3) an offering is put on the to-reserve list only if it is reserved, available, compatible with the updated requirements and CanReserve said yes for this host; Add reserves exactly that list, releases current∖updated and then replaces the list; the list given to Add is the one CanAdd returned for the chosen candidate; " +
			"(4) strict mode: offeringsToReserve can succeed only if the feature is off, the mode is not strict, or something was reserved whenever a compatible reserved offering exists or the claim held reservations; hasCompatibleOffering is set on every path that found a compatible offering; " +
			"trySchedule returns a reserved-offering error before relaxing; a reserved-offering error from template i clears any choice made by a later template; provisioning passes DisableReservedCapacityFallback, which selects the strict mode; " +
			"(5) FinalizeScheduling pins a claim holding reservations to capacity-type reserved and to exactly the held reservation ids. " +
			"DRA: (6) the cone of Allocator.Allocate and of both CanAdd functions contains no writer of AllocationTracker, Allocator or ReservationManager state; tracker state is written only under Commit, ReleaseInstanceType(s) and the constructor; " +
			"(7) in the DFS, a device is recorded only after the availability test for its kind (IsAllocated and the local set for exclusive devices, checkCapacity for shared ones) and the counter test, and every failing exit after recording undoes it; " +
			"(8) what a commit adds to a NodeClaim's stored consumption of a shared device (commitCapacity, commitTemplateCapacity, commitCounters) and to the DFS-local account (addCapacity) is ACCUMULATED: " +
			"the entry written back is the entry read from the same map under the same key with the committed quantity Add-ed, for every element of the committed map; a whole entry is taken over only where none was stored; " +
			"no merge loop is left early or skipped (the maximum is taken only across instance types, in pessimisticCapacityMax).",
		NotCovered: []string{
			"the allocator's exclusivity / capacity / counter arithmetic across superposed instance types (value-level; not decidable by this technique) — decided is only WHICH operation combines a stored and a committed quantity and that every committed entry takes part (ACC1-4), not that the quantities are the right ones",
			"the budgets that are decremented by the delta of the pessimistic maximum (RemainingCounters, template remaining counters) and the DFS-local counter account (deductAllocatingCounters) are not read by ACC1-4",
			"that checkCapacity / checkCounters computations are numerically right (of the pessimistic maximum only the direction of the comparison is decided)",
			"reservation leaks (a dropped NodeClaim keeps its reservations) — under-use, not over-commit",
		},
		Rules: c17Rules,
	})
}

func c17Rules(tier string) []Rule {
	rules := c17RulesBase(tier)
	// adding a pod always replaces the held reservations by the list CanAdd computed for it — also by the empty list
	// (a pod that excludes every reserved offering must not leave the NodeClaim pinned to a reservation)
	rules = append(rules, POST{ID: "C17.POST11", Fn: "(*sched.NodeClaim).Add", From: "", Must: []string{`^store \$0\.reservedOfferings = \$6$`}, Note: "every path through Add stores the new reservation list"},
		POST{ID: "C17.POST11b", Fn: "(*sched.NodeClaim).Add", From: "", Must: []string{`^call \(\*sched\.NodeClaim\)\.releaseReservedOfferings\(\$0, \$0\.reservedOfferings, \$6\)$`}, Note: "…and releases what is no longer held"})
	// the reservation manager sees every NodePool's full catalogue (the capacity of a shared reservation is the least any
	// pool reports), and template counters are initialised before the first consumption is committed
	rules = append(rules, core.Custom{ID: "C17.PROV9", Kind: "PROV", Run: func(w *core.World, id string) []core.Result {
		return core.ArgProvenance(w, id, "sched.NewScheduler", `^call sched\.NewReservationManager\(`, 0, `^\$6$`, "NewReservationManager(instanceTypes): the unfiltered per-NodePool catalogue handed to NewScheduler")
	}},
		NOREACH{ID: "C17.NR1", Fn: "(*scheduling/dynamicresources.AllocationTracker).Commit", From: `^call \(\*scheduling/dynamicresources\.AllocationTracker\)\.commitTemplateCounters\(`,
			Sink: `^call \(\*scheduling/dynamicresources\.AllocationTracker\)\.InitTemplateRemainingCounters\(`, Note: "counters are initialised before they are consumed"},
		POST{ID: "C17.POST12", Fn: "(*scheduling/dynamicresources.AllocationTracker).Commit", From: "", Must: []string{`^call \(\*scheduling/dynamicresources\.AllocationTracker\)\.commitTemplateCounters\(\$0, \$1\.nodeClaimID, \$1\.templateCounterConsumptionByIT\)$`}})
	rules = append(rules, c17MinOverAll()...)
	rules = append(rules, c17Accumulate()...)
	return rules
}

// What a NodeClaim consumes of a shared device is the SUM of its commits (per instance type, device and dimension); only
// ACROSS instance types is the maximum taken (pessimisticCapacityMax, DOM10). Whether the sum is computed right is
// arithmetic; which operation combines the stored and the new quantity is structure: the entry written back is the entry
// read from the same map under the same key with the committed quantity Add-ed to it — for every element of the committed
// map, with a whole entry taken over only where none was stored, and no loop left early. The same shape carries the
// template-device consumption and the DFS-local accounting (addCapacity).
func c17Accumulate() []Rule {
	const q = `apim/api/resource\.Quantity`
	spec := func(what, state, value string, merge, take int) core.MergeSpec {
		return core.MergeSpec{
			State:    state,
			Value:    value,
			Op:       `^\(\*` + q + `\)\.Add$`,
			ReadOnly: `^\(\*?` + q + `\)\.(Cmp|CmpInt64|Sign|IsZero|Equal|Value|MilliValue|String|AsInt64|AsDec|AsApproximateFloat64)$`,
			Copy:     `^\(` + q + `\)\.DeepCopy$`,
			MinMerge: merge, MinTake: take, What: what,
		}
	}
	const at = "(*scheduling/dynamicresources.AllocationTracker)."
	return []Rule{
		// Min: the innermost merge; take-overs: the claim's table created when absent, instance type / device taken over when
		// absent, the device's in-flight table created when nil (the in-flight delta itself is a plain Add onto the entry read)
		core.Custom{ID: "C17.ACC1", Kind: "ACC", Run: func(w *core.World, id string) []core.Result {
			return core.AccumulatingMerge(w, id, "ACC", at+"commitCapacity", spec("shared-device capacity consumed by a NodeClaim",
				`^\$0\.(consumedCapacityByNodeClaimIT|InflightConsumedCapacity)$`, `^`+q+`$`, 1, 4))
		}},
		core.Custom{ID: "C17.ACC2", Kind: "ACC", Run: func(w *core.World, id string) []core.Result {
			return core.AccumulatingMerge(w, id, "ACC", at+"commitTemplateCapacity", spec("template-device capacity consumed by a NodeClaim",
				`^\$0\.templateConsumedCapacity$`, `^`+q+`$`, 1, 3))
		}},
		core.Custom{ID: "C17.ACC3", Kind: "ACC", Run: func(w *core.World, id string) []core.Result {
			return core.AccumulatingMerge(w, id, "ACC", "scheduling/dynamicresources.addCapacity", spec("capacity a single Allocate call has handed out so far",
				`^\$0$`, `^`+q+`$`, 1, 0))
		}},
		// the counter twin: same shape one level deeper (pool / counter set / counter), the quantity is the Counter's Value.
		// RemainingCounters (a budget that is decremented by the delta of the pessimistic maximum) is not this rule's state.
		core.Custom{ID: "C17.ACC4", Kind: "ACC", Run: func(w *core.World, id string) []core.Result {
			return core.AccumulatingMerge(w, id, "ACC", at+"commitCounters", spec("shared counters consumed by a NodeClaim",
				`^\$0\.countersByNodeClaimIT$`, `^k8s\.io/api/resource/v1\.Counter$`, 1, 4))
		}},
	}
}

// The capacity table of the reservation manager is the minimum over EVERY reserved offering of every NodePool's catalogue
// that names the id — available or not, whatever its capacity (a NodePool whose snapshot already sees the reservation
// exhausted must lower the table for the pool with the stale view). DOM3 says when an entry may be written; these rows say
// that no reserved offering gets past the comparison: an offering's turn ends without the entry having been written only
// if the offering is not reserved or the entry is already no larger, and none of the three loops is left before its end.
func c17MinOverAll() []Rule {
	const (
		fn       = "sched.NewReservationManager"
		offLoop  = `+^.* < len\(next\(range\(\$0\)\)#2\[.*\]\.Offerings\)$`
		offDone  = `-^.* < len\(next\(range\(\$0\)\)#2\[.*\]\.Offerings\)$`
		itLoop   = `+^.* < len\(next\(range\(\$0\)\)#2\)$`
		itDone   = `-^.* < len\(next\(range\(\$0\)\)#2\)$`
		poolLoop = `+^next\(range\(\$0\)\)#0$`
		poolDone = `-^next\(range\(\$0\)\)#0$`
	)
	return []Rule{
		ITER{ID: "C17.ITER1", Fn: fn, Loop: offLoop, Gates: gates(G(
			`-^\(\*cloudprovider\.Offering\)\.CapacityType\(next\(range\(\$0\)\)#2\[.*\]\.Offerings\[.*\]\) == "reserved"$`,
			`instr:^mapupdate makemap<map\[string\]int>\[\(\*cloudprovider\.Offering\)\.ReservationID\(.*\)\] = .*\.ReservationCapacity$`,
			`-^next\(range\(\$0\)\)#2\[.*\]\.Offerings\[.*\]\.ReservationCapacity < makemap<map\[string\]int>\[.*\]#0$`,
		)), Note: "every reserved offering is compared with the table: skipped only if not reserved or not smaller than the entry"},
		ITER{ID: "C17.ITER2", Fn: fn, Loop: itLoop, Gates: gates(G(offDone)), Note: "an instance type's turn ends only when all its offerings were visited"},
		ITER{ID: "C17.ITER3", Fn: fn, Loop: poolLoop, Gates: gates(G(itDone)), Note: "a NodePool's turn ends only when all its instance types were visited"},
		MPT{ID: "C17.MPT6", Fn: fn, Ret: core.RetAny, Gates: gates(G(poolDone)), Note: "the manager is returned only after every NodePool was visited"},
	}
}

func c17RulesBase(tier string) []Rule {
	const (
		rm      = "(*sched.ReservationManager)."
		nc      = "(*sched.NodeClaim)."
		otr     = nc + "offeringsToReserve"
		tva     = nc + "tryVolumeAlternative"
		dec     = `^mapupdate \$0\.capacity\[\(\*cloudprovider\.Offering\)\.ReservationID\(\$2\[.*\]\)\] = \(\$0\.capacity\[\(\*cloudprovider\.Offering\)\.ReservationID\(\$2\[.*\]\)\] - 1\)$`
		inc     = `^mapupdate \$0\.capacity\[\(\*cloudprovider\.Offering\)\.ReservationID\(\$2\[.*\]\)\] = \(\$0\.capacity\[\(\*cloudprovider\.Offering\)\.ReservationID\(\$2\[.*\]\)\] \+ 1\)$`
		hostOK  = `^\$0\.reservations\[\$1\]#1$`
		hostHas = `^\(apim/util/sets\.Set\[string\]\)\.Has\(\$0\.reservations\[\$1\]#0, \(\*cloudprovider\.Offering\)\.ReservationID\(\$2\[.*\]\)\)$`
		newCl   = "@arg:(*sched.Scheduler).addToNewNodeClaim|^call sched\\.parallelizeUntil\\(|2"
		dra     = "scheduling/dynamicresources."
		try     = "(*" + dra + "allocator).tryDevice"
	)
	reserved := `phi\(nil\|phi\(phi↺\|append\(.*\)\)\)`
	hasCompat := `phi\(false\|phi\(true\|phi↺\)\)`
	return []Rule{
		// ---- (1) who writes reservation state
		core.Custom{ID: "C17.WSET1", Kind: "WSET", Run: c17ReservationWriters},
		WMC{ID: "C17.WMC1", Sink: `^call \(\*sched\.ReservationManager\)\.Reserve\(`, Allowed: []string{nc + "Add"}, Required: []string{nc + "Add"}},
		WMC{ID: "C17.WMC2", Sink: `^call \(\*sched\.ReservationManager\)\.Release\(`, Allowed: []string{nc + "releaseReservedOfferings"}, Required: []string{nc + "releaseReservedOfferings"}},
		WMC{ID: "C17.WMC3", Sink: `^call \(\*sched\.NodeClaim\)\.releaseReservedOfferings\(`, Allowed: []string{nc + "Add"}, Required: []string{nc + "Add"}},

		// ---- (2) Reserve / Release / CanReserve / constructor
		DOM{ID: "C17.DOM1", Fn: rm + "Reserve", Sink: dec, Gates: gates(G(`-`+hostOK, `-`+hostHas)), Note: "no second decrement for an id the host already holds"},
		IMPL{ID: "C17.IMPL1", Fn: rm + "Reserve", Lit: `+^\$0\.capacity\[\(\*cloudprovider\.Offering\)\.ReservationID\(\$2\[.*\]\)\] < 0$`, Not: core.RetAny, Note: "capacity below zero is a fail-stop"},
		POST{ID: "C17.POST1", Fn: rm + "Reserve", From: dec, Must: []string{`^call \(apim/util/sets\.Set\[string\]\)\.Insert\(\$0\.reservations\[\$1\], &local<\[1\]string>\[:\]\)$`}, Note: "every decrement records the holder"},
		core.Custom{ID: "C17.PROV1", Kind: "PROV", Run: func(w *core.World, id string) []core.Result {
			rs := core.InstrPresent(w, id, "PROV", rm+"Reserve", `^store &local<\[1\]string>\[0\] = \(\*cloudprovider\.Offering\)\.ReservationID\(\$2\[.*\]\)$`, 1, "the id recorded is the id decremented")
			rs = append(rs, core.InstrPresent(w, id, "PROV", rm+"Release", `^store &local<\[1\]string>\[0\] = \(\*cloudprovider\.Offering\)\.ReservationID\(\$2\[.*\]\)$`, 1, "the id removed is the id incremented")...)
			return rs
		}},
		DOM{ID: "C17.DOM2", Fn: rm + "Release", Sink: inc, Gates: gates(
			G(`+`+hostOK), G(`+`+hostHas),
			G(`instr:^call \(apim/util/sets\.Set\[string\]\)\.Delete\(\$0\.reservations\[\$1\]#0, &local<\[1\]string>\[:\]\)$`),
		), Note: "capacity is returned only for an id the host holds, together with removing the holder"},
		POST{ID: "C17.POST2", Fn: rm + "Release", From: `^call \(apim/util/sets\.Set\[string\]\)\.Delete\(\$0\.reservations\[\$1\]#0, `, Must: []string{inc}},
		MPT{ID: "C17.MPT1", Fn: rm + "CanReserve", Ret: core.RetTrue, Gates: gates(
			G(`+`+hostOK, `-^\$0\.capacity\[\(\*cloudprovider\.Offering\)\.ReservationID\(\$2\)\]#0 == 0$`),
			G(`+^\(apim/util/sets\.Set\[string\]\)\.Has\(\$0\.reservations\[\$1\]#0, \(\*cloudprovider\.Offering\)\.ReservationID\(\$2\)\)$`, `-^\$0\.capacity\[\(\*cloudprovider\.Offering\)\.ReservationID\(\$2\)\]#0 == 0$`),
		), Note: "yes ⇒ the host already holds the id, or capacity is left"},
		DOM{ID: "C17.DOM3", Fn: "sched.NewReservationManager", Sink: `^mapupdate makemap<map\[string\]int>\[`, Gates: gates(
			G(`+^\(\*cloudprovider\.Offering\)\.CapacityType\(.*\) == "reserved"$`),
			G(`-^makemap<map\[string\]int>\[.*\]#1$`, `+^next\(range\(\$0\)\)#2\[.*\]\.Offerings\[.*\]\.ReservationCapacity < makemap<map\[string\]int>\[.*\]#0$`),
		), Note: "per id the smallest advertised capacity is kept"},
		core.Custom{ID: "C17.PROV2", Kind: "PROV", Run: func(w *core.World, id string) []core.Result {
			rs := core.InstrPresent(w, id, "PROV", "sched.NewReservationManager", `^mapupdate makemap<map\[string\]int>\[\(\*cloudprovider\.Offering\)\.ReservationID\((.*)\)\] = (.*)\.ReservationCapacity$`, 1, "capacity comes from the offering's ReservationCapacity")
			rs = append(rs, core.InstrPresent(w, id, "PROV", "sched.NewReservationManager", `^store &local<sched\.ReservationManager>\.capacity = makemap<map\[string\]int>$`, 1, "and is what the manager starts from")...)
			return rs
		}},

		// ---- (3) what is reserved
		DOM{ID: "C17.DOM4", Fn: otr, Sink: `^call append\(phi\(.*\), &local<\[1\]\*cloudprovider\.Offering>\[:\]\)$`, Gates: gates(
			G(`+^\(\*sched\.ReservationManager\)\.CanReserve\(\$0\.reservationManager, \$0\.hostname, \$2\[.*\]\.Offerings\[.*\]\)$`),
			G(`+^\(\*cloudprovider\.Offering\)\.CapacityType\(\$2\[.*\]\.Offerings\[.*\]\) == "reserved"$`),
			G(`+^\$2\[.*\]\.Offerings\[.*\]\.Available$`),
			G(`+^\(scheduling\.Requirements\)\.IsCompatible\(\$3, \$2\[.*\]\.Offerings\[.*\]\.Requirements, `),
		)},
		core.Custom{ID: "C17.PROV3", Kind: "PROV", Run: c17SameOffering},
		core.Custom{ID: "C17.PROV4", Kind: "PROV", Run: func(w *core.World, id string) []core.Result {
			add := nc + "Add"
			rs := core.InstrPresent(w, id, "PROV", add, `^call \(\*sched\.ReservationManager\)\.Reserve\(\$0\.reservationManager, \$0\.hostname, \$6\)$`, 1, "Add reserves exactly the list CanAdd produced, for this claim's host name")
			rs = append(rs, core.InstrPresent(w, id, "PROV", add, `^call \(\*sched\.NodeClaim\)\.releaseReservedOfferings\(\$0, \$0\.reservedOfferings, \$6\)$`, 1, "and releases what was held before and is no longer wanted")...)
			rs = append(rs, core.InstrPresent(w, id, "PROV", add, `^store \$0\.reservedOfferings = \$6$`, 1, "the held list is replaced by the new one")...)
			rs = append(rs, core.InstrPresent(w, id, "PROV", nc+"releaseReservedOfferings", `^call \(\*sched\.ReservationManager\)\.Release\(\$0\.reservationManager, \$0\.hostname, &local<\[1\]\*cloudprovider\.Offering>\[:\]\)$`, 1, "release is for this claim's host name")...)
			rs = append(rs, core.InstrPresent(w, id, "PROV", nc+"releaseReservedOfferings", `^store &local<\[1\]\*cloudprovider\.Offering>\[0\] = \$1\[.*\]$`, 1, "…of an offering from the current list")...)
			rs = append(rs, core.ArgProvenance(w, id, "(*sched.Scheduler).addToInflightNode", `^call \(\*sched\.NodeClaim\)\.Add\(`, 6, `^\^?\(\*sched\.NodeClaim\)\.CanAdd\(.*\)#2$`, "the in-flight claim reserves what its CanAdd returned")...)
			rs = append(rs, core.ArgProvenance(w, id, "(*sched.Scheduler).addToNewNodeClaim", `^call \(\*sched\.NodeClaim\)\.Add\(`, 6, `^&local<\[\]\*cloudprovider\.Offering>$`, "the new claim reserves the chosen candidate's list")...)
			rs = append(rs, core.InstrPresent(w, id, "PROV", newCl, `^store \^&local<\[\]\*cloudprovider\.Offering> = \(\*sched\.NodeClaim\)\.CanAdd\(.*\)#2$`, 1, "…which is what that candidate's CanAdd returned")...)
			rs = append(rs, core.ArgProvenance(w, id, tva, `^call \(\*sched\.NodeClaim\)\.offeringsToReserve\(`, 2, `^phi\(lo\.Filter\[\*cloudprovider\.InstanceType, cloudprovider\.InstanceTypes\]\(sched\.filterInstanceTypesByRequirements\(.*\|sched\.filterInstanceTypesByRequirements\(.*\)#0\)$`, "reservations are computed over the surviving instance types")...)
			rs = append(rs, core.ArgProvenance(w, id, tva, `^call \(\*sched\.NodeClaim\)\.offeringsToReserve\(`, 3, `^scheduling\.NewRequirements\(\(scheduling\.Requirements\)\.Values\(\$4\)\)$`, "…under the updated requirements")...)
			return rs
		}},
		DOM{ID: "C17.DOM5", Fn: nc + "Add", Sink: `^store \$0\.reservedOfferings = \$6$`, Gates: gates(
			G(`instr:^call \(\*sched\.NodeClaim\)\.releaseReservedOfferings\(\$0, \$0\.reservedOfferings, \$6\)$`),
		), Note: "the old list is diffed before it is overwritten"},
		DOM{ID: "C17.DOM6", Fn: nc + "releaseReservedOfferings", Sink: `^call \(\*sched\.ReservationManager\)\.Release\(`, Gates: gates(
			G(`-^\(apim/util/sets\.Set\[string\]\)\.Has\(apim/util/sets\.New\[string\]\(nil\), \(\*cloudprovider\.Offering\)\.ReservationID\(\$1\[.*\]\)\)$`),
		), Note: "only ids absent from the updated list are released"},
		MPT{ID: "C17.MPT2", Fn: tva, Ret: core.RetOK, Gates: gates(
			G(`+^\(\*sched\.NodeClaim\)\.offeringsToReserve\(\$0, .*\)#1 == nil$`),
		), Note: "admission fails when the reservation step fails"},

		// ---- (4) strict mode
		core.Custom{ID: "C17.REG1", Kind: "REG", Run: func(w *core.World, id string) []core.Result {
			return core.ConstIs(w, id, "controllers/provisioning/scheduling", "ReservedOfferingModeStrict", "1", "ReservedOfferingModeStrict")
		}},
		MPT{ID: "C17.MPT3", Fn: otr, Ret: core.RetOK, Gates: gates(
			G(`-^operator/options\.FromContext\(\)\.FeatureGates\.ReservedCapacity$`, `-^\$0\.reservedOfferingMode == 1$`, `-^`+hasCompat+`$`, `+^len\(`+reserved+`\)>=1$`),
			G(`-^operator/options\.FromContext\(\)\.FeatureGates\.ReservedCapacity$`, `-^\$0\.reservedOfferingMode == 1$`, `-^len\(\$0\.reservedOfferings\)>=1$`, `+^len\(`+reserved+`\)>=1$`),
		), Note: "strict: no success with nothing reserved when compatible reserved capacity exists or reservations were held"},
		core.Custom{ID: "C17.PHI1", Kind: "PROV", Run: c17HasCompatible},
		DOM{ID: "C17.DOM7", Fn: "(*sched.Scheduler).trySchedule", Sink: `^call \(\*sched\.Preferences\)\.Relax\(`, Gates: gates(
			G(`-^sched\.IsReservedOfferingError\(\(\*sched\.Scheduler\)\.add\(\$0, \$2\)\)$`),
		), Note: "no relaxation (and no retry) after a reserved-offering error"},
		IMPL{ID: "C17.IMPL2", Fn: "(*sched.Scheduler).trySchedule", Lit: `+^sched\.IsReservedOfferingError\(\(\*sched\.Scheduler\)\.add\(\$0, \$2\)\)$`, Not: core.RetOK, Note: "…it is returned as a failure"},
		POST{ID: "C17.POST3", Fn: newCl, FromLit: `+^sched\.IsReservedOfferingError\(\(\*sched\.NodeClaim\)\.CanAdd\(.*\)#4\)$`,
			Must: []string{`^store \^&local<\*sched\.NodeClaim> = nil$`}, Excuse: []string{`-^\$0 < \^&local<int>$`},
			Note: "a reserved-offering error from an earlier template voids a later template's success"},
		MPT{ID: "C17.MPT4", Fn: newCl, Ret: core.RetTrue, Gates: gates(
			G(`-^sched\.IsReservedOfferingError\(\(\*sched\.NodeClaim\)\.CanAdd\(.*\)#4\)$`, `+^\^\$0\.remainingResources\[.*\]#1$`),
		), Note: "evaluation does not continue past a template that reported a reserved-offering error"},
		core.Custom{ID: "C17.PROV5", Kind: "PROV", Run: c17StrictWiring},

		// ---- (5) the launch request is pinned
		POST{ID: "C17.POST4", Fn: nc + "FinalizeScheduling", FromLit: `+^len\(\$0\.reservedOfferings\)>=1$`,
			Must: []string{`^mapupdate \$0\.NodeClaimTemplate\.Requirements\["karpenter\.sh/capacity-type"\] = scheduling\.NewRequirement\("karpenter\.sh/capacity-type", "In", &local<\[1\]string>\[:\]\)$`}},
		POST{ID: "C17.POST5", Fn: nc + "FinalizeScheduling", FromLit: `+^len\(\$0\.reservedOfferings\)>=1$`,
			Must: []string{`^call \(scheduling\.Requirements\)\.Add\(\$0\.NodeClaimTemplate\.Requirements, &local<\[1\]\*scheduling\.Requirement>\[:\]\)$`}},
		core.Custom{ID: "C17.PROV6", Kind: "PROV", Run: func(w *core.World, id string) []core.Result {
			fs := nc + "FinalizeScheduling"
			rs := core.InstrPresent(w, id, "PROV", fs, `^store &local<\[1\]string>\[0\] = "reserved"$`, 1, "capacity type pinned to reserved")
			rs = append(rs, core.InstrPresent(w, id, "PROV", fs, `^store &local<\[1\]\*scheduling\.Requirement>\[0\] = scheduling\.NewRequirement\(cloudprovider\.ReservationIDLabel, "In", lo\.Map\[\*cloudprovider\.Offering, string\]\(\$0\.reservedOfferings, fn:\(\*sched\.NodeClaim\)\.FinalizeScheduling\$1\)\)$`, 1, "reservation ids are exactly those of the held offerings")...)
			rs = append(rs, core.InstrPresent(w, id, "PROV", fs+"$1", `^return \(\*cloudprovider\.Offering\)\.ReservationID\(\$0\)$`, 1, "mapped by ReservationID")...)
			rs = append(rs, core.InstrPresent(w, id, "PROV", "(*sched.Scheduler).Solve", `^call \(\*sched\.NodeClaim\)\.FinalizeScheduling\(\$0\.newNodeClaims\[.*\], `, 1, "Solve finalizes the new claims")...)
			return rs
		}},
		POST{ID: "C17.POST6", Fn: "(*sched.Scheduler).Solve", FromLit: `+^\(phi\(-1\|\(phi↺ \+ 1\)\) \+ 1\) < len\(\$0\.newNodeClaims\)$`,
			Must: []string{`^call \(\*sched\.NodeClaim\)\.FinalizeScheduling\(\$0\.newNodeClaims\[`}, Note: "every new claim is finalized"},

		// ---- (6) DRA: tentative evaluation is read-only, commits are confined
		core.Custom{ID: "C17.CONE1", Kind: "CONE", Run: c17ReadOnlyCones},
		// the in-flight consumption of a shared device is the worst case over a NodeClaim's instance types: an aggregated
		// entry is replaced only when absent or when the new quantity is strictly larger (never by a smaller one)
		DOM{ID: "C17.DOM10", Fn: "scheduling/dynamicresources.pessimisticCapacityMax", Sink: `^mapupdate phi\(makemap<map\[k8s\.io/api/resource/v1\.QualifiedName\]apim/api/resource\.Quantity>\|.*\] = \(apim/api/resource\.Quantity\)\.DeepCopy\(`, Gates: gates(
			G(`-^phi\(makemap<map\[k8s\.io/api/resource/v1\.QualifiedName\]apim/api/resource\.Quantity>\|.*\]#1$`,
				`+^0 < \(\*apim/api/resource\.Quantity\)\.Cmp\(next\(range\(.*\)\)#2, phi\(makemap<`,
				`+^\(\*apim/api/resource\.Quantity\)\.Cmp\(phi\(makemap<.*, next\(range\(.*\)\)#2\) < 0$`),
		)},
		core.Custom{ID: "C17.PROV8", Kind: "PROV", Run: func(w *core.World, id string) []core.Result {
			// commit and release both charge the difference of the pessimistic maximum before and after
			rs := core.InstrPresent(w, id, "PROV", "(*scheduling/dynamicresources.AllocationTracker).commitCapacity", `^call scheduling/dynamicresources\.pessimisticCapacityMax\(`, 2, "commit compares the worst case before and after")
			return append(rs, core.InstrPresent(w, id, "PROV", "(*scheduling/dynamicresources.AllocationTracker).releaseCapacity", `^call scheduling/dynamicresources\.pessimisticCapacityMax\(`, 2, "release compares the worst case before and after")...)
		}},
		core.Custom{ID: "C17.WSET2", Kind: "WSET", Run: c17TrackerWriters},
		core.Custom{ID: "C17.PROV7", Kind: "PROV", Run: func(w *core.World, id string) []core.Result {
			rs := core.InstrPresent(w, id, "PROV", nc+"Add", `^call iface:\(scheduling/dynamicresources\.Allocation\)\.Commit\(\$7\.Allocation\)$`, 1, "NodeClaim.Add commits the allocation CanAdd produced")
			rs = append(rs, core.InstrPresent(w, id, "PROV", "(*sched.ExistingNode).Add", `^call iface:\(scheduling/dynamicresources\.Allocation\)\.Commit\(\$6\.Allocation\)$`, 1, "ExistingNode.Add commits the allocation CanAdd produced")...)
			rs = append(rs, core.ArgProvenance(w, id, "(*sched.Scheduler).addToInflightNode", `^call \(\*sched\.NodeClaim\)\.Add\(`, 7, `^\^?\(\*sched\.NodeClaim\)\.CanAdd\(.*\)#3$`, "allocation result of the chosen in-flight claim")...)
			rs = append(rs, core.ArgProvenance(w, id, "(*sched.Scheduler).addToExistingNode", `^call \(\*sched\.ExistingNode\)\.Add\(`, 6, `^\^?\(\*sched\.ExistingNode\)\.CanAdd\(.*\)#1$`, "allocation result of the chosen existing node")...)
			return rs
		}},

		// exclusive-device records: created on commit, consulted pessimistically, dropped only with the last instance type
		DOM{ID: "C17.DOM9", Fn: "(*" + dra + "AllocationTracker).ReleaseInstanceTypes", Sink: `^call delete\(\$0\.InflightClusterAllocations, `, Gates: gates(
			G(`-^len\(\$0\.InflightClusterAllocations\[.*\]#0\.InstanceTypes\)>=1$`),
			G(`instr:^call \(apim/util/sets\.Set\[scheduling/dynamicresources\.InstanceTypeID\]\)\.Delete\(\$0\.InflightClusterAllocations\[.*\]#0\.InstanceTypes, `),
		), Note: "a device's in-flight record is dropped only when no instance type of the NodeClaim references it any more"},
		MPT{ID: "C17.MPT5", Fn: "(*" + dra + "AllocationTracker).IsAllocated", Ret: core.RetFalse, Gates: gates(
			G(`+^\$1\.Template$`, `-^\(apim/util/sets\.Set\[scheduling/dynamicresources\.DeviceID\]\)\.Has\(\$0\.PreallocatedDevices, \$1\)$`),
			G(`+^\$1\.Template$`, `-^\$0\.InflightClusterAllocations\[\$1\]#1$`, `+^\$0\.InflightClusterAllocations\[\$1\]#0\.NodeClaimID == iface:\(scheduling/dynamicresources\.NodeClaim\)\.ID\(\$2\)$`),
			G(`+^\$1\.Template$`, `-^\$0\.InflightClusterAllocations\[\$1\]#1$`, `-^\(apim/util/sets\.Set\[scheduling/dynamicresources\.InstanceTypeID\]\)\.Has\(\$0\.InflightClusterAllocations\[\$1\]#0\.InstanceTypes, \$3\)$`),
			G(`-^\$1\.Template$`, `-^\$0\.InflightTemplateAllocations\[.*\]#1$`, `-^\$0\.InflightTemplateAllocations\[.*\]#0\[\$3\]#1$`, `-^\(apim/util/sets\.Set\[scheduling/dynamicresources\.DeviceID\]\)\.Has\(\$0\.InflightTemplateAllocations\[.*\]#0\[\$3\]#0, \$1\)$`),
		), Note: "free ⇒ not preallocated, and no record, or a record of this NodeClaim for other instance types only"},
		POST{ID: "C17.POST10", Fn: "(*" + dra + "AllocationTracker).Commit", From: `^call (\(\*scheduling/dynamicresources\.AllocationTracker\)\.insertAllocation\(\$0, |scheduling/dynamicresources\.insertAllocation\()\$0\.InflightClusterAllocationsByNodeClaim, `,
			Must: []string{`^mapupdate \$0\.InflightClusterAllocations\[.*\] = &local<scheduling/dynamicresources\.InflightAllocationMetadata>$`,
				`^call \(apim/util/sets\.Set\[scheduling/dynamicresources\.InstanceTypeID\]\)\.Insert\(\$0\.InflightClusterAllocations\[.*\]#0\.InstanceTypes, `},
			Note: "every committed exclusive device gets (or extends) its in-flight record"},
		IMPL{ID: "C17.IMPL3", Fn: "(*" + dra + "AllocationTracker).Commit", Lit: `-^\$0\.InflightClusterAllocations\[.*\]#0\.NodeClaimID == \$1\.nodeClaimID$`, Not: core.RetAny, Note: "committing a device recorded for another NodeClaim is a fail-stop"},

		// ---- (7) DFS: check before record, undo on failure
		DOM{ID: "C17.DOM8", Fn: try, Sink: `^call \(apim/util/sets\.Set\[scheduling/dynamicresources\.DeviceID\]\)\.Insert\(\$0\.allocatedDevices, `, Gates: gates(
			G(`+^\$7\.Device\.AllowMultipleAllocations$`, `-^\(\*scheduling/dynamicresources\.AllocationTracker\)\.IsAllocated\(\$0\.Allocator\.allocationTracker, \$7\.ID, \$0\.nodeClaim, \$0\.itID\)$`),
			G(`+^\$7\.Device\.AllowMultipleAllocations$`, `-^\(apim/util/sets\.Set\[scheduling/dynamicresources\.DeviceID\]\)\.Has\(\$0\.allocatedDevices, \$7\.ID\)$`),
			G(`-^\$7\.Device\.AllowMultipleAllocations$`, `+^\(\*scheduling/dynamicresources\.allocator\)\.checkCapacity\(\$0, \$7\.Device, \$7\.ID, \$6\)#1$`),
			G(`-^len\(\$7\.Device\.ConsumesCounters\)>=1$`, `+^\(\*scheduling/dynamicresources\.allocator\)\.checkCounters\(\$0, \$7\.Device, `),
		), Stable: []string{`^\$7\.Device\.AllowMultipleAllocations$`}, Note: "a device is recorded only after the availability test of its kind and the counter test"},
		POST{ID: "C17.POST7", Fn: try, From: `^call \(apim/util/sets\.Set\[scheduling/dynamicresources\.DeviceID\]\)\.Insert\(\$0\.allocatedDevices, `,
			Must: []string{`^call \(apim/util/sets\.Set\[scheduling/dynamicresources\.DeviceID\]\)\.Delete\(\$0\.allocatedDevices, `}, To: core.RetFalse, Note: "backtracking un-records the device"},
		POST{ID: "C17.POST8", Fn: try, From: `^call \(\*scheduling/dynamicresources\.allocator\)\.deductAllocatingCapacity\(`,
			Must: []string{`^call \(\*scheduling/dynamicresources\.allocator\)\.restoreAllocatingCapacity\(`}, To: core.RetFalse},
		POST{ID: "C17.POST9", Fn: try, From: `^call \(\*scheduling/dynamicresources\.allocator\)\.deductAllocatingCounters\(`,
			Must: []string{`^call \(\*scheduling/dynamicresources\.allocator\)\.restoreAllocatingCounters\(`}, To: core.RetFalse},
	}
}

// C17.WSET1: every instruction that mutates ReservationManager state (stores, map updates, deletes, set Insert/Delete
// through its fields) lives in Reserve or Release.
func c17ReservationWriters(w *core.World, id string) []core.Result {
	var fns []*ssa.Function
	for _, f := range w.Fns {
		if !core.IsTestSupport(f) {
			fns = append(fns, f)
		}
	}
	allowed := map[string]bool{"(*sched.ReservationManager).Reserve": true, "(*sched.ReservationManager).Release": true}
	var out []core.Result
	n := 0
	for _, in := range w.StructFieldStores(fns, map[string]bool{"sched.ReservationManager": true}) {
		n++
		name := core.FnName(core.RootFn(in.Parent()))
		if !allowed[name] {
			out = append(out, core.Bad(id, "WSET", "WSET:ReservationManager@"+name, w.InstrPos(in), "reservation state is written outside Reserve/Release: `"+clipStr(w.RenderInstr(in), 120)+"`"))
		}
	}
	if n < 5 {
		return []core.Result{core.Bad(id, "WSET", "WSET:ReservationManager", "", fmt.Sprintf("vacuous: %d write sites found, 5 confirmed by hand", n))}
	}
	if len(out) == 0 {
		out = append(out, core.OK(id, "WSET", "WSET:ReservationManager", n, fmt.Sprintf("%d write sites, all in Reserve/Release", n)))
	}
	return out
}

// C17.PROV3: the offering appended to the to-reserve list is the very offering CanReserve was asked about.
func c17SameOffering(w *core.World, id string) []core.Result {
	const fnName = "(*sched.NodeClaim).offeringsToReserve"
	fn := w.Fn(fnName)
	if fn == nil {
		return []core.Result{core.Anchor(id, "PROV", fnName)}
	}
	construct := "PROV:" + fnName + ":appended=checked"
	var asked, appended []ssa.Value
	for _, s := range w.Sites(fn, regexp.MustCompile(`^call \(\*sched\.ReservationManager\)\.CanReserve\(`), false) {
		args := s.(*ssa.Call).Call.Args
		asked = append(asked, args[len(args)-1])
	}
	for _, s := range w.Sites(fn, regexp.MustCompile(`^store &local<\[1\]\*cloudprovider\.Offering>\[0\] = `), false) {
		appended = append(appended, s.(*ssa.Store).Val)
	}
	if len(asked) != 1 || len(appended) != 1 {
		return []core.Result{core.Bad(id, "PROV", construct, w.Pos(fn.Pos()), fmt.Sprintf("expected one CanReserve call and one appended offering, found %d and %d", len(asked), len(appended)))}
	}
	if asked[0] != appended[0] {
		return []core.Result{core.Bad(id, "PROV", construct, w.Pos(fn.Pos()), "the offering put on the to-reserve list (`"+w.RenderD(appended[0], 4)+"`) is not the one CanReserve was asked about (`"+w.RenderD(asked[0], 4)+"`)")}
	}
	return []core.Result{core.OK(id, "PROV", construct, 1, "same SSA value")}
}

// C17.PHI1: hasCompatibleOffering is true on every loop back-edge that can only be reached after IsCompatible⁺.
func c17HasCompatible(w *core.World, id string) []core.Result {
	const fnName = "(*sched.NodeClaim).offeringsToReserve"
	fn := w.Fn(fnName)
	if fn == nil {
		return []core.Result{core.Anchor(id, "PROV", fnName)}
	}
	construct := "PROV:" + fnName + ":hasCompatibleOffering"
	cut := w.GateCut(fn, G(`+^\(scheduling\.Requirements\)\.IsCompatible\(\$3, \$2\[.*\]\.Offerings\[.*\]\.Requirements, `))
	if len(cut.Edges) == 0 {
		return []core.Result{core.Bad(id, "PROV", construct, w.Pos(fn.Pos()), "the compatibility test of reserved offerings was not found")}
	}
	reach := core.Reach([]*ssa.BasicBlock{fn.Blocks[0]}, cut)
	n := 0
	var out []core.Result
	for _, b := range fn.Blocks {
		for _, in := range b.Instrs {
			phi, ok := in.(*ssa.Phi)
			if !ok || !isBool(phi) {
				continue
			}
			hasTrue := false
			for _, e := range phi.Edges {
				if c, ok := e.(*ssa.Const); ok && c.Value != nil && c.Value.String() == "true" {
					hasTrue = true
				}
			}
			if !hasTrue {
				continue
			}
			for i, e := range phi.Edges {
				pred := b.Preds[i]
				if reach[pred] {
					continue // reachable without a compatible offering
				}
				n++
				if c, ok := e.(*ssa.Const); !ok || c.Value == nil || c.Value.String() != "true" {
					out = append(out, core.Bad(id, "PROV", construct, w.InstrPos(pred.Instrs[len(pred.Instrs)-1]), "a path that found a compatible reserved offering leaves hasCompatibleOffering unset (`"+w.RenderD(e, 3)+"`): strict mode would then fall back silently"))
				}
			}
		}
	}
	if n < 2 {
		return []core.Result{core.Bad(id, "PROV", construct, w.Pos(fn.Pos()), fmt.Sprintf("vacuous: %d compatible-only loop edges found, 2 confirmed by hand", n))}
	}
	if len(out) == 0 {
		out = append(out, core.OK(id, "PROV", construct, n, fmt.Sprintf("%d edges after IsCompatible⁺ all carry true", n)))
	}
	return out
}

func isBool(v ssa.Value) bool { return v.Type().Underlying().String() == "bool" }

// C17.PROV5: provisioning passes DisableReservedCapacityFallback and that option selects the strict mode, which NewScheduler
// copies into the scheduler and every new NodeClaim receives.
func c17StrictWiring(w *core.World, id string) []core.Result {
	rs := core.InstrPresent(w, id, "PROV", "(*prov.Provisioner).Schedule", `^store &local<\[\d+\]sched\.Options>\[\d+\] = sched\.DisableReservedCapacityFallback$`, 1, "provisioning disables the fallback")
	rs = append(rs, core.InstrPresent(w, id, "PROV", "sched.NewScheduler", `^store &local<sched\.Scheduler>\.reservedOfferingMode = opkg/option\.Resolve\[sched\.options\]\(\$\d+\)\.reservedOfferingMode$`, 1, "the option reaches the scheduler")...)
	rs = append(rs, core.ArgProvenance(w, id, "(*sched.Scheduler).addToNewNodeClaim", `^call sched\.NewNodeClaim\(`, 5, `^\^\$0\.reservedOfferingMode$`, "…and every new NodeClaim")...)
	rs = append(rs, core.ArgProvenance(w, id, "(*sched.Scheduler).addToNewNodeClaim", `^call sched\.NewNodeClaim\(`, 4, `^\^\$0\.reservationManager$`, "all claims of a pass share the pass's reservation manager")...)
	rs = append(rs, core.InstrPresent(w, id, "PROV", "sched.NewNodeClaim", `^store &local<sched\.NodeClaim>\.reservedOfferingMode = \$5$`, 1, "stored on the claim")...)
	rs = append(rs, core.InstrPresent(w, id, "PROV", "sched.NewNodeClaim", `^store &local<sched\.NodeClaim>\.reservationManager = \$4$`, 1, "stored on the claim")...)
	// the option function bound to the exported variable stores the strict constant
	construct := "PROV:sched.DisableReservedCapacityFallback"
	initFn := w.Fn("sched.init")
	if initFn == nil {
		return append(rs, core.Anchor(id, "PROV", "sched.init"))
	}
	var opt *ssa.Function
	for _, b := range initFn.Blocks {
		for _, in := range b.Instrs {
			st, ok := in.(*ssa.Store)
			if !ok {
				continue
			}
			if g, ok := st.Addr.(*ssa.Global); ok && g.Name() == "DisableReservedCapacityFallback" {
				switch v := st.Val.(type) {
				case *ssa.Function:
					opt = v
				case *ssa.MakeClosure:
					opt, _ = v.Fn.(*ssa.Function)
				}
			}
		}
	}
	if opt == nil {
		return append(rs, core.Bad(id, "PROV", construct, "", "the option function bound to DisableReservedCapacityFallback was not found"))
	}
	sites := w.Sites(opt, regexp.MustCompile(`^store \$0\.reservedOfferingMode = 1$`), false)
	if len(sites) != 1 {
		return append(rs, core.Bad(id, "PROV", construct, w.Pos(opt.Pos()), "DisableReservedCapacityFallback no longer selects ReservedOfferingModeStrict"))
	}
	return append(rs, core.OK(id, "PROV", construct, 1, "sets reservedOfferingMode = Strict"))
}

var c17StateTypes = []string{"scheduling/dynamicresources.AllocationTracker", "scheduling/dynamicresources.Allocator", "sched.ReservationManager"}

// C17.CONE1: tentative evaluation never commits.
func c17ReadOnlyCones(w *core.World, id string) []core.Result {
	writers := w.ReceiverWriters(c17StateTypes...)
	if len(writers) < 10 {
		return []core.Result{core.Bad(id, "CONE", "CONE:dra-writers", "", fmt.Sprintf("vacuous: only %d writer methods derived", len(writers)))}
	}
	var out []core.Result
	for _, rootName := range []string{"(*scheduling/dynamicresources.Allocator).Allocate", "(*sched.NodeClaim).CanAdd", "(*sched.ExistingNode).CanAdd"} {
		root := w.Fn(rootName)
		if root == nil {
			out = append(out, core.Anchor(id, "CONE", rootName))
			continue
		}
		construct := "CONE:" + rootName + "↛scarce-state-writers"
		parent, order := w.Cone([]*ssa.Function{root}, nil)
		bad := 0
		for _, f := range order {
			if why, ok := writers[f]; ok {
				bad++
				out = append(out, core.Bad(id, "CONE", construct+":"+core.FnName(f), w.Pos(f.Pos()),
					fmt.Sprintf("%s (evaluated in parallel, result may be discarded) reaches %s, which writes shared allocation state (%s); path: %s", rootName, core.FnName(f), clipStr(why, 100), core.PathTo(parent, f))))
			}
		}
		if len(order) < 20 {
			out = append(out, core.Bad(id, "CONE", construct, w.Pos(root.Pos()), fmt.Sprintf("vacuous: cone has only %d functions", len(order))))
		} else if bad == 0 {
			out = append(out, core.OK(id, "CONE", construct, len(order), fmt.Sprintf("%d functions in the cone, none of the %d derived writers", len(order), len(writers))))
		}
	}
	return out
}

// C17.WSET2: tracker state is written only by methods that are reached from Commit, ReleaseInstanceType(s) or the constructor:
// every caller of a derived writer is itself a derived writer or one of the audited entry points.
func c17TrackerWriters(w *core.World, id string) []core.Result {
	writers := w.ReceiverWriters("scheduling/dynamicresources.AllocationTracker")
	entry := map[string]string{
		"(*scheduling/dynamicresources.allocation).Commit":             "commit of the chosen candidate's allocation",
		"(*scheduling/dynamicresources.Allocator).ReleaseInstanceType": "instance types pruned from a NodeClaim",
		"scheduling/dynamicresources.NewAllocator":                     "construction (pre-initialises counters)",
		"scheduling/dynamicresources.NewAllocationTracker":             "construction",
	}
	names := map[string]bool{}
	for f := range writers {
		names[core.FnName(f)] = true
	}
	var out []core.Result
	n := 0
	cg := w.CG()
	for f := range writers {
		for _, caller := range cg.CallersOf(f) {
			if core.IsTestSupport(caller) {
				continue
			}
			n++
			cn := core.FnName(core.RootFn(caller))
			if names[cn] {
				continue
			}
			if _, ok := entry[cn]; ok {
				continue
			}
			out = append(out, core.Bad(id, "WSET", "WSET:AllocationTracker:"+core.FnName(f)+"←"+cn, w.Pos(caller.Pos()),
				fmt.Sprintf("%s writes allocation-tracker state and is called from %s, which is not a commit/release entry point", core.FnName(f), cn)))
		}
	}
	if len(writers) < 8 || n < 8 {
		return []core.Result{core.Bad(id, "WSET", "WSET:AllocationTracker", "", fmt.Sprintf("vacuous: %d writers / %d call edges derived", len(writers), n))}
	}
	if len(out) == 0 {
		var ws []string
		for k := range names {
			ws = append(ws, strings.TrimPrefix(k, "(*scheduling/dynamicresources.AllocationTracker)."))
		}
		sort.Strings(ws)
		out = append(out, core.OK(id, "WSET", "WSET:AllocationTracker", n, fmt.Sprintf("%d writer methods %v, %d call edges, all from writers or the audited entry points", len(writers), ws, n)))
	}
	return out
}
