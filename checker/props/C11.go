package props

import (
	"fmt"
	"go/types"
	"regexp"
	"sort"
	"strings"

	"kverif/core"

	"golang.org/x/tools/go/ssa"
)

func init() {
	core.Register(&core.Property{
		ID:    "C11",
		Title: "Cluster state equals a fresh recomputation from the API",
		Explanation: "Decides the structural conditions of 'incremental = from scratch': (1) copy coverage — ShallowCopy carries all StateNode fields; newStateFromNodeClaim carries every field except NodeClaim from the old node; newStateFromNode carries the non-aggregate fields and rebuilds every aggregate (populateResourceRequests/populateVolumeLimits must succeed), each aggregate being initialised or nil-guarded in updateForPod; DeepCopyInto gives every reference-typed field a fresh value; " +
			"(2) updateForPod and cleanupForPod touch the same aggregate field set; " +
			"(3) identity changes: a changed provider id reaches cleanupNode/cleanupNodeClaim, cleanups and both constructors reach updateNodePoolResources and drop the name→id entry, every store to markedForDeletion is bracketed by ShallowCopy and updateNodePoolResources(old, n), pod usage updates are followed by cleanupOldBindings and the binding write; within one UpdateNode / UpdateNodeClaim the name→id entry is read (change detection, cleanup of the old id) before it is overwritten, and it is recorded only once the state node was built; " +
			"(3b) re-delivery: updateForPod is an idempotent upsert — every per-pod record (request / limit maps, disruption cost, HostPortUsage.reserved, VolumeUsage.podVolumes) is overwritten under the pod's key with a value that does not depend on the previous entry, and HostPortUsage.Add / VolumeUsage.Add replace (or delete) the entry on every path; " +
			"(4) the state informers translate NotFound into the Delete* call and everything else into Update*; " +
			"(5) all accesses to nodes, bindings, nodeNameToProviderID, nodeClaimNameToProviderID and nodePoolResources hold Cluster.mu (helpers inherit the lock from every caller).",
		NotCovered: []string{"numeric equality of aggregates", "informer delivery semantics (level-triggered reconciliation is assumed)", "the duplicate provider-id corner (cleanup helpers index c.nodes[id] without a presence check)",
			"VolumeUsage.volumes (the union over the node's pods) only grows in Add: a pod re-delivered with fewer volumes keeps its old ids in the aggregate until the next DeletePod / node rebuild (upstream behaviour; only the per-pod record podVolumes is decided to be replaced)"},
		Rules: c11Rules,
	})
}

func c11Rules(tier string) []Rule {
	rules := c11RulesBase(tier)
	rules = append(rules, usageBookkeepingRules("C11")...)
	// a pod update always refreshes the anti-affinity index, also when the node usage update fails (node not tracked yet)
	rules = append(rules, POST{ID: "C11.AAIDX1", Fn: "(*state.Cluster).UpdatePod", From: "", Must: []string{`^call \(\*state\.Cluster\)\.updatePodAntiAffinities\(\$0, \$2\)$`}, Note: "every path through UpdatePod updates the anti-affinity index"})
	// the node's aggregate volume set never shares storage with a pod's record: Insert / Union copy the sets they are given
	rules = append(rules, core.Custom{ID: "C11.COPY6", Kind: "COPY", Run: func(w *core.World, id string) []core.Result {
		var out []core.Result
		n := 0
		seenMU := map[*ssa.MapUpdate]bool{}
		for _, name := range []string{"(scheduling.Volumes).Insert", "(scheduling.Volumes).Union"} {
			fn := w.Fn(name)
			if fn == nil {
				return []core.Result{core.Anchor(id, "COPY", name)}
			}
			w.WithHelpers(fn, func(f *ssa.Function, _ ssa.Instruction) {
				for _, b := range f.Blocks {
					for _, in := range b.Instrs {
						mu, ok := in.(*ssa.MapUpdate)
						if !ok || core.TypeStr(mu.Map.Type()) != "scheduling.Volumes" || seenMU[mu] {
							continue
						}
						seenMU[mu] = true
						n++
						if r := w.Render(mu.Value); !strings.HasPrefix(r, "apim/util/sets.New[string](") {
							out = append(out, core.Bad(id, "COPY", "COPY:"+name, w.InstrPos(in), "a volume set is stored as `"+clipStr(r, 60)+"` — not a fresh set: the aggregate aliases a pod's own record and later inserts write into it"))
						}
					}
				}
			})
		}
		if n < 1 {
			out = append(out, core.Bad(id, "COPY", "COPY:scheduling.Volumes", "", fmt.Sprintf("vacuous: %d stores into a Volumes map, at least 1 expected", n)))
		}
		if len(out) == 0 {
			out = append(out, core.OK(id, "COPY", "COPY:scheduling.Volumes", n, "Insert / Union store fresh sets only"))
		}
		return out
	}},
		// an observed NodeClaim reaches cluster state before anything that can fail (cost tracking) gets a say
		POST{ID: "C11.INF2c", Fn: "(*controllers/state/informer.NodeClaimController).Reconcile", FromLit: `+^utils/nodeclaim\.IsManaged\(&local<apis/v1\.NodeClaim>, \$0\.cloudProvider\)$`,
			Must: []string{`^call \(\*state\.Cluster\)\.UpdateNodeClaim\(\$0\.cluster, &local<apis/v1\.NodeClaim>\)$`}, Note: "every managed NodeClaim that was read is applied to cluster state"})
	return rules
}

func c11RulesBase(tier string) []Rule {
	const (
		nfnc = "(*state.Cluster).newStateFromNodeClaim"
		nfn  = "(*state.Cluster).newStateFromNode"
		mark = "(*state.Cluster).MarkForDeletion"
		unmk = "(*state.Cluster).UnmarkForDeletion"
		cnc  = "(*state.Cluster).cleanupNodeClaim"
		cn   = "(*state.Cluster).cleanupNode"
		unp  = "(*state.Cluster).updateNodeUsageFromPod"
		prr  = "(*state.Cluster).populateResourceRequests"
	)
	upr := `^call \(\*state\.Cluster\)\.updateNodePoolResources\(`
	return []Rule{
		core.Custom{ID: "C11.COPY1", Kind: "COPY", Run: func(w *core.World, id string) []core.Result {
			return core.CopyCoverage(w, id, core.CopySpec{Fn: "(*state.StateNode).ShallowCopy", Type: "state.StateNode", Source: `\$0`})
		}},
		core.Custom{ID: "C11.COPY2", Kind: "COPY", Run: c11DeepCopy},
		core.Custom{ID: "C11.COPY3", Kind: "COPY", Run: func(w *core.World, id string) []core.Result {
			return core.CopyCoverage(w, id, core.CopySpec{Fn: nfnc, Type: "state.StateNode", Source: `phi\(\$2\|state\.NewNode\(\)\)`,
				Exempt: map[string]string{"NodeClaim": "replaced by the NodeClaim being observed"}})
		}},
		core.Custom{ID: "C11.COPY4", Kind: "COPY", Run: c11FromNode},
		core.Custom{ID: "C11.SYM1", Kind: "SYM", Run: c11PodSymmetry},
		// re-accounting compares a snapshot taken before the change with the live node
		core.Custom{ID: "C11.SNAP1", Kind: "PROV", Run: c11Snapshots},
		// the per-node volume aggregate is a set union without multiplicities: it can only be rebuilt, never subtracted from
		core.Custom{ID: "C11.AGG1", Kind: "WSET", Run: c11VolumeAggregate},

		// ---- constructors
		MPT{ID: "C11.POST1a", Fn: nfnc, Ret: core.RetAny, Gates: gates(G(`instr:` + upr + `\$0, phi\(\$2\|state\.NewNode\(\)\), (&local<state\.StateNode>|state\.NewNode\(\))\)$`))},
		MPT{ID: "C11.POST1b", Fn: nfn, Ret: core.RetOK, Gates: gates(
			G(`instr:`+upr+`\$0, phi\(\$3\|state\.NewNode\(\)\), (&local<state\.StateNode>|state\.NewNode\(\))\)$`),
			G(`+^go\.uber\.org/multierr\.Combine\(&local<\[2\]error>\[:\]\) == nil$`),
		)},
		core.Custom{ID: "C11.POST1c", Kind: "POST", Run: func(w *core.World, id string) []core.Result {
			rs := core.InstrPresent(w, id, "POST", nfn, `^store &local<\[2\]error>\[0\] = \(\*state\.Cluster\)\.populateResourceRequests\(\$0, (&local<state\.StateNode>|state\.NewNode\(\))\)$`, 1, "pod aggregates are rebuilt from the API")
			return append(rs, core.InstrPresent(w, id, "POST", nfn, `^store &local<\[2\]error>\[1\] = \(\*state\.Cluster\)\.populateVolumeLimits\(\$0, (&local<state\.StateNode>|state\.NewNode\(\))\)$`, 1, "volume limits are rebuilt from the API")...)
		}},
		POST{ID: "C11.POST1d", Fn: nfnc, FromLit: `-^\$0\.nodeClaimNameToProviderID\[\$1\.ObjectMeta\.Name\]#0 == \$1\.Status\.ProviderID$`, Must: []string{`^call \(\*state\.Cluster\)\.cleanupNodeClaim\(\$0, \$1\.ObjectMeta\.Name\)$`}},
		POST{ID: "C11.POST1e", Fn: nfn, FromLit: `-^\$0\.nodeNameToProviderID\[\$2\.ObjectMeta\.Name\]#0 == \$2\.Spec\.ProviderID$`, Must: []string{`^call \(\*state\.Cluster\)\.cleanupNode\(\$0, \$2\.ObjectMeta\.Name\)$`}},
		// the state node built is what is stored under the object's provider id
		core.Custom{ID: "C11.POST1f", Kind: "PROV", Run: func(w *core.World, id string) []core.Result {
			rs := core.InstrPresent(w, id, "PROV", "(*state.Cluster).UpdateNodeClaim", `^mapupdate \$0\.nodes\[\$1\.Status\.ProviderID\] = \(\*state\.Cluster\)\.newStateFromNodeClaim\(\$0, \$1, \$0\.nodes\[\$1\.Status\.ProviderID\]\)$`, 1, "NodeClaim state keyed and carried over by provider id")
			rs = append(rs, core.InstrPresent(w, id, "PROV", "(*state.Cluster).UpdateNodeClaim", `^mapupdate \$0\.nodeClaimNameToProviderID\[\$1\.ObjectMeta\.Name\] = \$1\.Status\.ProviderID$`, 1, "name→id recorded (also for unlaunched NodeClaims)")...)
			rs = append(rs, core.InstrPresent(w, id, "PROV", "(*state.Cluster).UpdateNode", `^mapupdate \$0\.nodes\[\$2\.Spec\.ProviderID\] = \(\*state\.Cluster\)\.newStateFromNode\(\$0, \$2, \$0\.nodes\[\$2\.Spec\.ProviderID\]\)#0$`, 1, "Node state keyed and carried over by provider id")...)
			rs = append(rs, core.InstrPresent(w, id, "PROV", "(*state.Cluster).UpdateNode", `^mapupdate \$0\.nodeNameToProviderID\[\$2\.ObjectMeta\.Name\] = \$2\.Spec\.ProviderID$`, 1, "node name→id recorded")...)
			return rs
		}},
		DOM{ID: "C11.DOM1", Fn: "(*state.Cluster).UpdateNode", Sink: `^mapupdate \$0\.nodes\[`, Gates: gates(G(`+^\(\*state\.Cluster\)\.newStateFromNode\(.*\)#1 == nil$`))},
		// a name→id entry exists only for a state node that was built: cleanupNode dereferences c.nodes[id] of every entry it finds
		DOM{ID: "C11.DOM1b", Fn: "(*state.Cluster).UpdateNode", Sink: `^mapupdate \$0\.nodeNameToProviderID\[`, Gates: gates(G(`+^\(\*state\.Cluster\)\.newStateFromNode\(.*\)#1 == nil$`))},
		// identity changes are detected by comparing the recorded id of the object's name with its current one, and the
		// old state node is found through the same entry: within one Update* every read of the entry precedes its overwrite
		core.Custom{ID: "C11.ORD1", Kind: "ORDER", Run: c11ReadBeforeOverwrite},

		// ---- cleanups
		POST{ID: "C11.POST1g", Fn: cnc, FromLit: `-^\$0\.nodeClaimNameToProviderID\[\$1\] == ""$`, Must: []string{upr}},
		MPT{ID: "C11.POST1h", Fn: cnc, Ret: core.RetAny, Gates: gates(
			G(`instr:^call delete\(\$0\.nodeClaimNameToProviderID, \$1\)$`),
			G(`instr:^call \(\*state\.NodePoolState\)\.Cleanup\(\$0\.NodePoolState, \$1\)$`),
		)},
		POST{ID: "C11.POST1i", Fn: cn, FromLit: `-^\$0\.nodeNameToProviderID\[\$1\] == ""$`, Must: []string{upr}},
		POST{ID: "C11.POST1j", Fn: cn, FromLit: `-^\$0\.nodeNameToProviderID\[\$1\] == ""$`, Must: []string{`^call delete\(\$0\.nodeNameToProviderID, \$1\)$`}},
		// the state node is dropped only when its other half is absent, otherwise only that half is cleared
		DOM{ID: "C11.DOM2", Fn: cnc, Sink: `^call delete\(\$0\.nodes, `, Gates: gates(G(`+^\$0\.nodes\[\$0\.nodeClaimNameToProviderID\[\$1\]\]\.Node == nil$`))},
		DOM{ID: "C11.DOM3", Fn: cn, Sink: `^call delete\(\$0\.nodes, `, Gates: gates(G(`+^\$0\.nodes\[\$0\.nodeNameToProviderID\[\$1\]\]\.NodeClaim == nil$`))},

		// ---- deletion marks
		core.Custom{ID: "C11.POST2", Kind: "POST", Run: c11Marks},
		WMC{ID: "C11.WMC2", Sink: `^store .*\.markedForDeletion = (true|false|\S+)$`, Allowed: []string{mark, unmk, nfnc, nfn, "(*state.StateNode).ShallowCopy", "(*state.StateNode).DeepCopyInto"}, Required: []string{mark, unmk}},

		// ---- pod usage
		POST{ID: "C11.POST3", Fn: unp, From: `^call \(\*state\.StateNode\)\.updateForPod\(`, Must: []string{`^call \(\*state\.Cluster\)\.cleanupOldBindings\(\$0, \$2\)$`}, To: core.RetOK},
		POST{ID: "C11.POST3b", Fn: unp, From: `^call \(\*state\.StateNode\)\.updateForPod\(`, Must: []string{`^mapupdate \$0\.bindings\[cr/client\.ObjectKeyFromObject\(<\*corev1\.Pod>\$2\)\] = \$2\.Spec\.NodeName$`}, To: core.RetOK},
		POST{ID: "C11.POST3c", Fn: prr, From: `^call \(\*state\.StateNode\)\.updateForPod\(`, Must: []string{`^call \(\*state\.Cluster\)\.cleanupOldBindings\(`, `^return `}},
		POST{ID: "C11.POST3d", Fn: prr, From: `^call \(\*state\.Cluster\)\.cleanupOldBindings\(`, Must: []string{`^mapupdate \$0\.bindings\[`}},
		core.Custom{ID: "C11.PROV3", Kind: "PROV", Run: func(w *core.World, id string) []core.Result {
			// the node charged is the one the pod is bound to
			rs := core.ArgProvenance(w, id, unp, `^call \(\*state\.StateNode\)\.updateForPod\(`, 0, `^\$0\.nodes\[\$0\.nodeNameToProviderID\[\$2\.Spec\.NodeName\]\]#0$`, "usage is charged to the node named in the pod's binding")
			// a pod that moved nodes is removed from the old node
			rs = append(rs, core.InstrPresent(w, id, "PROV", "(*state.Cluster).cleanupOldBindings", `^call \(\*state\.StateNode\)\.cleanupForPod\(\$0\.nodes\[\$0\.nodeNameToProviderID\[\$0\.bindings\[cr/client\.ObjectKeyFromObject\(<\*corev1\.Pod>.*\)\]#0\]\]#0, cr/client\.ObjectKeyFromObject\(<\*corev1\.Pod>\$1\)\)$`, 1, "old node releases the pod")...)
			rs = append(rs, core.InstrPresent(w, id, "PROV", "(*state.Cluster).updateNodeUsageFromPodCompletion", `^call \(\*state\.StateNode\)\.cleanupForPod\(\$0\.nodes\[\$0\.nodeNameToProviderID\[\$0\.bindings\[\$1\]#0\]\]#0, \$1\)$`, 1, "completed pods are released from the node they were bound to")...)
			rs = append(rs, core.InstrPresent(w, id, "PROV", "(*state.Cluster).updateNodeUsageFromPodCompletion", `^call delete\(\$0\.bindings, \$1\)$`, 1, "and their binding is forgotten")...)
			return rs
		}},
		DOM{ID: "C11.DOM4", Fn: "(*state.Cluster).cleanupOldBindings", Sink: `^call \(\*state\.StateNode\)\.cleanupForPod\(`, Gates: gates(
			G(`-^\$0\.bindings\[cr/client\.ObjectKeyFromObject\(<\*corev1\.Pod>\$1\)\]#0 == \$1\.Spec\.NodeName$`),
		)},
		// terminal pods are completions, everything else an update
		DOM{ID: "C11.DOM5", Fn: "(*state.Cluster).UpdatePod", Sink: `^call \(\*state\.Cluster\)\.updateNodeUsageFromPod\(`, Gates: gates(G(`-^utils/pod\.IsTerminal\(\$2\)$`))},
		DOM{ID: "C11.DOM5b", Fn: "(*state.Cluster).UpdatePod", Sink: `^call \(\*state\.Cluster\)\.updateNodeUsageFromPodCompletion\(`, Gates: gates(G(`+^utils/pod\.IsTerminal\(\$2\)$`))},
		// the same pod is delivered again and again (level-triggered reconcile, recreated under the same name): applying
		// updateForPod twice must leave what applying it once (with the latest pod) leaves
		core.Custom{ID: "C11.IDEM1", Kind: "IDEM", Run: c11IdempotentUpsert},

		// ---- informers
		POST{ID: "C11.INF1", Fn: "(*controllers/state/informer.NodeController).Reconcile", FromLit: `+^apim/api/errors\.IsNotFound\(iface:\(cr/client\.Reader\)\.Get\(`, Must: []string{`^call \(\*state\.Cluster\)\.DeleteNode\(\$0\.cluster, \$2\.NamespacedName\.Name\)$`}},
		MPT{ID: "C11.INF1b", Fn: "(*controllers/state/informer.NodeController).Reconcile", Ret: core.RetNilConst, Gates: gates(
			G(`+^\(\*state\.Cluster\)\.UpdateNode\(\$0\.cluster, &local<corev1\.Node>\) == nil$`))},
		POST{ID: "C11.INF2", Fn: "(*controllers/state/informer.NodeClaimController).Reconcile", FromLit: `+^apim/api/errors\.IsNotFound\(iface:\(cr/client\.Reader\)\.Get\(`, Must: []string{`^call \(\*state\.Cluster\)\.DeleteNodeClaim\(\$0\.cluster, \$2\.NamespacedName\.Name\)$`}},
		MPT{ID: "C11.INF2b", Fn: "(*controllers/state/informer.NodeClaimController).Reconcile", Ret: core.RetSpec{Index: -1, Want: "nilconst", Also: `^return &local<cr/reconcile\.Result>, nil$`}, Gates: gates(
			G(`instr:^call \(\*state\.Cluster\)\.UpdateNodeClaim\(\$0\.cluster, &local<apis/v1\.NodeClaim>\)$`))},
		POST{ID: "C11.INF3", Fn: "(*controllers/state/informer.PodController).Reconcile", FromLit: `+^apim/api/errors\.IsNotFound\(iface:\(cr/client\.Reader\)\.Get\(`, Must: []string{`^call \(\*state\.Cluster\)\.DeletePod\(\$0\.cluster, \$2\.NamespacedName\)$`}},
		MPT{ID: "C11.INF3b", Fn: "(*controllers/state/informer.PodController).Reconcile", Ret: core.RetSpec{Index: -1, Want: "nilconst", Also: `^return &local<cr/reconcile\.Result>, nil$`}, Min: 1, Gates: gates(
			G(`+^\(\*state\.Cluster\)\.UpdatePod\(\$0\.cluster, &local<corev1\.Pod>\) == nil$`, `+^apim/api/errors\.IsNotFound\(\(\*state\.Cluster\)\.UpdatePod\(`))},

		// ---- locking
		core.Custom{ID: "C11.LOCK1", Kind: "LOCK", Run: func(w *core.World, id string) []core.Result {
			return core.LockDiscipline(w, id, core.LockSpec{Type: "state.Cluster", Mutex: "mu",
				Fields:      []string{"nodes", "bindings", "nodeNameToProviderID", "nodeClaimNameToProviderID", "nodePoolResources"},
				Constructor: []string{"state.NewCluster"}, MinAccesses: 60})
		}},
		core.Custom{ID: "C11.LOCK2", Kind: "LOCK", Run: func(w *core.World, id string) []core.Result {
			rs := core.LockDiscipline(w, id, core.LockSpec{Type: "state.Cluster", Mutex: "bufferPodCountsMu", Fields: []string{"bufferPodCounts"}, Constructor: []string{"state.NewCluster"}, MinAccesses: 2,
				ExemptFn: map[string]string{"(*state.Cluster).Reset": "test-only reset of the whole cluster state (documented as such); holds mu and unsyncedTimeMu"}})
			rs = append(rs, core.LockDiscipline(w, id, core.LockSpec{Type: "state.Cluster", Mutex: "clusterStateMu", Fields: []string{"clusterState"}, Constructor: []string{"state.NewCluster"}, MinAccesses: 2,
				ExemptFn: map[string]string{"(*state.Cluster).Reset": "test-only reset (see above)"}})...)
			return rs
		}},
	}
}

// C11.COPY2: DeepCopyInto: whole-struct copy plus a fresh value for every reference-typed field.
func c11DeepCopy(w *core.World, id string) []core.Result {
	var out []core.Result
	for _, spec := range []struct{ fn, typ string }{
		{"(*state.StateNode).DeepCopyInto", "state.StateNode"},
		{"(*scheduling.HostPortUsage).DeepCopyInto", "scheduling.HostPortUsage"},
		{"(*scheduling.VolumeUsage).DeepCopyInto", "scheduling.VolumeUsage"},
	} {
		out = append(out, deepCopyFresh(w, id, spec.fn, spec.typ)...)
	}
	return out
}

func isRefType(t types.Type) bool {
	switch t.Underlying().(type) {
	case *types.Pointer, *types.Map, *types.Slice, *types.Chan:
		return true
	}
	return false
}

func deepCopyFresh(w *core.World, id, fnName, typ string) []core.Result {
	fn := w.Fn(fnName)
	if fn == nil {
		return []core.Result{core.Anchor(id, "COPY", fnName)}
	}
	fields, st := w.StructFields(typ)
	if st == nil {
		return []core.Result{core.Anchor(id, "COPY", "type "+typ)}
	}
	construct := "COPY:" + fnName
	// whole struct copy
	if len(w.SitesOr(fn, regexp.MustCompile(`^store \$1 = \$0$`), false, 1)) == 0 {
		return []core.Result{core.Bad(id, "COPY", construct, w.Pos(fn.Pos()), "no whole-struct copy `*out = *in`: value-typed fields are not carried")}
	}
	var out []core.Result
	nref := 0
	for i, f := range fields {
		if !isRefType(st.Field(i).Type()) {
			continue
		}
		nref++
		fresh := false
		for _, b := range fn.Blocks {
			for _, in := range b.Instrs {
				s, ok := in.(*ssa.Store)
				if !ok || w.Render(s.Addr) != "$1."+f {
					continue
				}
				switch v := s.Val.(type) {
				case *ssa.Alloc, *ssa.MakeMap, *ssa.MakeSlice:
					fresh = true
				case *ssa.Call:
					if strings.Contains(w.CalleeName(v.Common()), "DeepCopy") {
						fresh = true
					}
				}
			}
		}
		if !fresh {
			out = append(out, core.Bad(id, "COPY", construct+"."+f, w.Pos(fn.Pos()), fmt.Sprintf("%s: reference-typed field %s.%s keeps pointing at the original's memory (no fresh allocation): a simulation mutating the copy mutates cluster state", fnName, typ, f)))
		}
	}
	// no store after the initial `*out = *in` may put shared memory into the copy: every stored value whose type can
	// hold a reference is fresh (allocation, make, nil, or the result of a DeepCopy call)
	nst := 0
	for _, b := range fn.Blocks {
		for _, in := range b.Instrs {
			var addr, val ssa.Value
			switch x := in.(type) {
			case *ssa.Store:
				addr, val = x.Addr, x.Val
			case *ssa.MapUpdate:
				addr, val = x.Map, x.Value
			default:
				continue
			}
			if _, local := addr.(*ssa.Alloc); local {
				continue // spill of a range variable etc.
			}
			if w.RenderInstr(in) == "store $1 = $0" || !containsRef(val.Type(), 0) {
				continue
			}
			nst++
			if !freshValue(w, val) {
				out = append(out, core.Bad(id, "COPY", construct+":alias", w.InstrPos(in), fmt.Sprintf("%s stores a value that still references the original's memory into the copy: `%s` — a simulation mutating the copy mutates cluster state", fnName, clipStr(w.RenderInstr(in), 110))))
			}
		}
	}
	if len(out) == 0 {
		out = append(out, core.OK(id, "COPY", construct, nref+nst, fmt.Sprintf("%d reference-typed fields, all freshly allocated; %d reference-carrying stores, all of fresh values", nref, nst)))
	}
	return out
}

func freshValue(w *core.World, v ssa.Value) bool {
	switch x := v.(type) {
	case *ssa.Alloc, *ssa.MakeMap, *ssa.MakeSlice:
		return true
	case *ssa.Const:
		return x.IsNil() || x.Value == nil
	case *ssa.Call:
		return strings.Contains(w.CalleeName(x.Common()), "DeepCopy")
	case *ssa.UnOp:
		// load of a local that holds a fresh value (e.g. `outVal = make(...)` spilled)
		if a, ok := x.X.(*ssa.Alloc); ok {
			n, fresh := 0, true
			for _, r := range *a.Referrers() {
				if st, ok := r.(*ssa.Store); ok && st.Addr == a {
					n++
					fresh = fresh && freshValue(w, st.Val)
				}
			}
			return n > 0 && fresh
		}
	case *ssa.Slice:
		return freshValue(w, x.X)
	case *ssa.ChangeType:
		return freshValue(w, x.X)
	case *ssa.Phi:
		for _, e := range x.Edges {
			if e != v && !freshValue(w, e) {
				return false
			}
		}
		return true
	}
	return false
}

// containsRef: can a value of type t hold a reference to shared memory?
func containsRef(t types.Type, depth int) bool {
	if depth > 6 {
		return true
	}
	switch u := t.Underlying().(type) {
	case *types.Pointer, *types.Map, *types.Slice, *types.Chan, *types.Interface, *types.Signature:
		return true
	case *types.Struct:
		for i := 0; i < u.NumFields(); i++ {
			if containsRef(u.Field(i).Type(), depth+1) {
				return true
			}
		}
	case *types.Array:
		return containsRef(u.Elem(), depth+1)
	}
	return false
}

// aggregateFields: fields of StateNode that fn (receiver $0) mutates: map updates / deletes / stores on $0.f and
// method calls with $0.f as receiver.
func aggregateFields(w *core.World, fn *ssa.Function) map[string]bool {
	out := map[string]bool{}
	re := regexp.MustCompile(`^(mapupdate \$0\.(\w+)\[|call delete\(\$0\.(\w+), |store \$0\.(\w+) = |call \(\*scheduling\.\w+\)\.\w+\(\$0\.(\w+), )`)
	for _, b := range fn.Blocks {
		for _, in := range b.Instrs {
			switch in.(type) {
			case *ssa.MapUpdate, *ssa.Call, *ssa.Store:
			default:
				continue
			}
			m := re.FindStringSubmatch(w.RenderInstr(in))
			if m == nil {
				continue
			}
			for _, g := range m[2:] {
				if g != "" {
					out[g] = true
				}
			}
		}
	}
	return out
}

// C11.SYM1
func c11PodSymmetry(w *core.World, id string) []core.Result {
	up := w.Fn("(*state.StateNode).updateForPod")
	cl := w.Fn("(*state.StateNode).cleanupForPod")
	if up == nil || cl == nil {
		return []core.Result{core.Anchor(id, "SYM", "updateForPod / cleanupForPod")}
	}
	a, b := aggregateFields(w, up), aggregateFields(w, cl)
	var diff []string
	for f := range a {
		if !b[f] {
			diff = append(diff, f+" (written by updateForPod, never cleared by cleanupForPod)")
		}
	}
	for f := range b {
		if !a[f] {
			diff = append(diff, f+" (cleared by cleanupForPod, never written by updateForPod)")
		}
	}
	sort.Strings(diff)
	if len(a) < 5 {
		return []core.Result{core.Bad(id, "SYM", "SYM:updateForPod~cleanupForPod", w.Pos(up.Pos()), fmt.Sprintf("vacuous: updateForPod writes %v", core.SortedKeys(a)))}
	}
	if len(diff) > 0 {
		return []core.Result{core.Bad(id, "SYM", "SYM:updateForPod~cleanupForPod", w.Pos(cl.Pos()), "per-pod aggregates differ between add and remove: "+strings.Join(diff, "; ")+" — a pod that leaves the node keeps contributing (or vice versa)")}
	}
	return []core.Result{core.OK(id, "SYM", "SYM:updateForPod~cleanupForPod", len(a), fmt.Sprintf("both touch %v", core.SortedKeys(a)))}
}

// C11.COPY4: newStateFromNode.
func c11FromNode(w *core.World, id string) []core.Result {
	return fromNode(w, id, nil)
}

// fromNode: newStateFromNode carries the in-memory state of the previous StateNode over (only: just those fields).
func fromNode(w *core.World, id string, only []string) []core.Result {
	const nfn = "(*state.Cluster).newStateFromNode"
	up := w.Fn("(*state.StateNode).updateForPod")
	if up == nil {
		return []core.Result{core.Anchor(id, "COPY", "(*state.StateNode).updateForPod")}
	}
	agg := aggregateFields(w, up)
	rebuilt := map[string]string{}
	for f := range agg {
		rebuilt[f] = `^store &local<\[2\]error>\[0\] = \(\*state\.Cluster\)\.populateResourceRequests\(\$0, (&local<state\.StateNode>|state\.NewNode\(\))\)$`
	}
	rs := core.CopyCoverage(w, id, core.CopySpec{Fn: nfn, Type: "state.StateNode", Source: `phi\(\$3\|state\.NewNode\(\)\)`,
		Exempt:  map[string]string{"Node": "replaced by the Node being observed"},
		Rebuilt: rebuilt, Only: only})
	if only != nil {
		return rs
	}
	// each aggregate is initialised in the literal (or by the constructor) or nil-guarded in updateForPod
	fn := w.Fn(nfn)
	if fn == nil {
		return rs
	}
	var dest ssa.Value
	for _, b := range fn.Blocks {
		for _, in := range b.Instrs {
			if a, ok := in.(*ssa.Alloc); ok && core.TypeStr(a.Type()) == "*state.StateNode" {
				dest = a
			}
		}
	}
	var stores map[string][]ssa.Value
	if dest != nil {
		stores = w.ValueFieldStores(dest)
	} else {
		// built by the constructor: its literal initialises the aggregates
		ctor := w.Fn("state.NewNode")
		if ctor == nil || len(w.Sites(fn, regexp.MustCompile(`^call state\.NewNode\(\)$`), false)) == 0 {
			return rs
		}
		for _, b := range ctor.Blocks {
			for _, in := range b.Instrs {
				if a, ok := in.(*ssa.Alloc); ok && core.TypeStr(a.Type()) == "*state.StateNode" {
					dest = a
				}
			}
		}
		if dest == nil {
			return rs
		}
		stores = w.ValueFieldStores(dest)
	}
	for f := range agg {
		init := false
		for _, v := range stores[f] {
			switch v.(type) {
			case *ssa.MakeMap, *ssa.Call, *ssa.Alloc:
				init = true
			}
		}
		if init {
			continue
		}
		guarded := false
		for _, b := range up.Blocks {
			if t, _, ok := w.BlockLits(b); ok && t.Expr == "$0."+f+" == nil" {
				guarded = true
			}
		}
		if !guarded {
			rs = append(rs, core.Bad(id, "COPY", "COPY:"+nfn+"."+f, w.Pos(dest.Pos()), "aggregate "+f+" is left nil by newStateFromNode and updateForPod writes it without a nil guard (panic on the first pod) "))
		}
	}
	return rs
}

// C11.POST2: MarkForDeletion / UnmarkForDeletion bracket the flag store.
func c11Marks(w *core.World, id string) []core.Result {
	var out []core.Result
	for _, spec := range []struct {
		fn  string
		val string
	}{{"(*state.Cluster).MarkForDeletion", "true"}, {"(*state.Cluster).UnmarkForDeletion", "false"}} {
		fn := w.Fn(spec.fn)
		if fn == nil {
			out = append(out, core.Anchor(id, "POST", spec.fn))
			continue
		}
		stores := w.Sites(fn, regexp.MustCompile(`^store \$0\.nodes\[\$1\[.*\]\]#0\.markedForDeletion = `+spec.val+`$`), false)
		if len(stores) != 1 {
			out = append(out, core.Bad(id, "POST", "POST:"+spec.fn, w.Pos(fn.Pos()), fmt.Sprintf("expected one store markedForDeletion = %s on the looked-up node, found %d", spec.val, len(stores))))
			continue
		}
		s := stores[0]
		if !w.GuardedBy(s, G(`instr:^call \(\*state\.StateNode\)\.ShallowCopy\(\$0\.nodes\[\$1\[.*\]\]#0\)$`)) {
			out = append(out, core.Bad(id, "POST", "POST:"+spec.fn+":before", w.InstrPos(s), "the deletion mark is changed without first taking a ShallowCopy of the old state (pool totals cannot be adjusted)"))
		}
		if !w.GuardedBy(s, G(`+^\$0\.nodes\[\$1\[.*\]\]#1$`)) {
			out = append(out, core.Bad(id, "POST", "POST:"+spec.fn+":present", w.InstrPos(s), "the deletion mark is written through a node that may be absent"))
		}
		if bad, why := postAfterCall(w, fn, s, `^call \(\*state\.Cluster\)\.updateNodePoolResources\(\$0, \(\*state\.StateNode\)\.ShallowCopy\(\$0\.nodes\[\$1\[.*\]\]#0\), \$0\.nodes\[\$1\[.*\]\]#0\)$`); bad {
			out = append(out, core.Bad(id, "POST", "POST:"+spec.fn+":after", w.InstrPos(s), "the deletion mark is changed without updateNodePoolResources(old, n) afterwards: per-NodePool totals drift from a fresh recomputation ("+why+")"))
		}
	}
	if len(out) == 0 {
		out = append(out, core.OK(id, "POST", "POST:Mark/UnmarkForDeletion", 2, "ShallowCopy → store → updateNodePoolResources(old, n)"))
	}
	return out
}

// postAfterCall: from instruction `from`, every path to the next loop iteration or return executes an instruction matching re.
func postAfterCall(w *core.World, fn *ssa.Function, from ssa.Instruction, re string) (bool, string) {
	rx := regexp.MustCompile(re)
	b := from.Block()
	started := false
	for _, in := range b.Instrs {
		if in == from {
			started = true
			continue
		}
		if started {
			if _, ok := in.(*ssa.Call); ok && rx.MatchString(w.RenderInstr(in)) {
				return false, ""
			}
		}
	}
	seen := map[*ssa.BasicBlock]bool{b: true}
	stack := append([]*ssa.BasicBlock{}, b.Succs...)
	for len(stack) > 0 {
		x := stack[len(stack)-1]
		stack = stack[:len(stack)-1]
		if seen[x] {
			if x == b {
				return true, "next loop iteration reached"
			}
			continue
		}
		seen[x] = true
		hit := false
		for _, in := range x.Instrs {
			if _, ok := in.(*ssa.Call); ok && rx.MatchString(w.RenderInstr(in)) {
				hit = true
				break
			}
		}
		if hit {
			continue
		}
		if len(x.Succs) == 0 {
			return true, "function exit @" + w.InstrPos(x.Instrs[len(x.Instrs)-1])
		}
		stack = append(stack, x.Succs...)
	}
	return false, ""
}

// C11.SNAP1: at every updateNodePoolResources(old, new) call the two arguments are different objects; when old is a
// ShallowCopy of new, the copy is taken before the stores into new that the call accounts for.
func c11Snapshots(w *core.World, id string) []core.Result {
	re := regexp.MustCompile(`^call \(\*state\.Cluster\)\.updateNodePoolResources\(`)
	var out []core.Result
	n := 0
	for _, fn := range w.Fns {
		if core.IsTestSupport(fn) {
			continue
		}
		for _, site := range w.Sites(fn, re, false) {
			call := site.(*ssa.Call)
			args := call.Call.Args
			if len(args) != 3 {
				continue
			}
			n++
			name := core.FnName(fn)
			construct := "PROV:updateNodePoolResources@" + name
			oldV, newV := args[1], args[2]
			ro, rn := w.Render(oldV), w.Render(newV)
			if rn == "nil" || ro == "nil" {
				continue // removal / first sight
			}
			if ro == rn || oldV == newV {
				out = append(out, core.Bad(id, "PROV", construct, w.InstrPos(site), "updateNodePoolResources is given the live node as its own 'old' snapshot (`"+clipStr(ro, 80)+"`): the difference is always empty and the per-NodePool totals are never re-accounted"))
				continue
			}
			if sc, ok := oldV.(*ssa.Call); ok && w.CalleeName(sc.Common()) == "(*state.StateNode).ShallowCopy" {
				if w.Render(sc.Call.Args[0]) != rn {
					out = append(out, core.Bad(id, "PROV", construct, w.InstrPos(site), "the snapshot is a copy of `"+clipStr(w.Render(sc.Call.Args[0]), 60)+"`, not of the node being re-accounted"))
					continue
				}
				// every store through the live node that precedes the call in its block comes after the snapshot
				seenCopy := false
				for _, in := range site.Block().Instrs {
					if in == ssa.Instruction(sc) {
						seenCopy = true
					}
					if in == site {
						break
					}
					if st, ok := in.(*ssa.Store); ok && strings.HasPrefix(w.Render(st.Addr), rn+".") && !seenCopy {
						out = append(out, core.Bad(id, "PROV", construct, w.InstrPos(in), "the node is modified before the snapshot is taken: old and new are equal when compared"))
					}
				}
				if sc.Block() != site.Block() {
					out = append(out, core.Result{ID: id, Kind: "PROV", Construct: construct, Status: core.Undecided, Pos: w.InstrPos(site), Msg: "snapshot and re-accounting are in different blocks (idiom not recognised)"})
				}
			}
		}
	}
	if n < 8 {
		return []core.Result{core.Bad(id, "PROV", "PROV:updateNodePoolResources", "", fmt.Sprintf("vacuous: %d call sites found, 8 confirmed by hand", n))}
	}
	if len(out) == 0 {
		out = append(out, core.OK(id, "PROV", "PROV:updateNodePoolResources:snapshots", n, fmt.Sprintf("%d call sites: old is nil, a distinct object, or a ShallowCopy taken before the change", n)))
	}
	return out
}

// C11.AGG1: VolumeUsage.volumes (driver → set of volume ids, the union over the node's pods, no counts) is never
// subtracted from: pods may share a claim, so removing a pod's ids would drop ids other pods still mount.
func c11VolumeAggregate(w *core.World, id string) []core.Result {
	fields, st := w.StructFields("scheduling.VolumeUsage")
	if st == nil {
		return []core.Result{core.Anchor(id, "WSET", "type scheduling.VolumeUsage")}
	}
	construct := "WSET:scheduling.VolumeUsage.volumes"
	ok := false
	for i, f := range fields {
		if f == "volumes" && core.TypeStr(st.Field(i).Type()) == "scheduling.Volumes" {
			ok = true
		}
	}
	if !ok {
		return []core.Result{{ID: id, Kind: "WSET", Construct: construct, Status: core.Undecided, Msg: "VolumeUsage.volumes is no longer a scheduling.Volumes set-union: the aggregate's representation changed and this row must be re-audited"}}
	}
	rem := regexp.MustCompile(`^call (delete|clear|\(apim/util/sets\.Set\[string\]\)\.(Delete|Clear|PopAny)|\(scheduling\.Volumes\)\.\w*(Delete|Remove)\w*)\(\$0\.volumes\b`)
	rebuilt := regexp.MustCompile(`^store \$0\.volumes = makemap<scheduling\.Volumes>$`)
	var out []core.Result
	n := 0
	for _, fn := range w.Fns {
		if !strings.HasPrefix(core.FnName(core.RootFn(fn)), "(*scheduling.VolumeUsage).") {
			continue
		}
		n++
		for _, s := range w.Sites(fn, rem, false) {
			out = append(out, core.Bad(id, "WSET", construct, w.InstrPos(s), "ids are removed from the node's aggregate volume set in place (`"+clipStr(w.RenderInstr(s), 100)+"`): a claim shared with a pod that stays is dropped and volume limits are under-counted"))
		}
	}
	dp := w.Fn("(*scheduling.VolumeUsage).DeletePod")
	if dp == nil {
		return []core.Result{core.Anchor(id, "WSET", "(*scheduling.VolumeUsage).DeletePod")}
	}
	if len(w.SitesOr(dp, rebuilt, false, 1)) == 0 {
		out = append(out, core.Bad(id, "WSET", construct+":rebuild", w.Pos(dp.Pos()), "DeletePod does not rebuild the aggregate from the remaining pods"))
	}
	if n < 4 {
		return []core.Result{core.Bad(id, "WSET", construct, "", fmt.Sprintf("vacuous: %d VolumeUsage methods found", n))}
	}
	if len(out) == 0 {
		out = append(out, core.OK(id, "WSET", construct, n, fmt.Sprintf("%d methods: no removal from the aggregate; DeletePod rebuilds it", n)))
	}
	return out
}

// C11.ORD1: within one UpdateNode (UpdateNodeClaim), private helpers included, no write of nodeNameToProviderID[name]
// (nodeClaimNameToProviderID[name]) — update or delete — can be followed by a read of the same entry. newStateFromNode
// decides "the provider id changed" by comparing the recorded id with the current one and cleanupNode finds the old
// state node through the recorded id; both must see the entry of the previous reconcile, not the one being written.
func c11ReadBeforeOverwrite(w *core.World, id string) []core.Result {
	var out []core.Result
	total := 0
	for _, spec := range []struct{ root, field, what string }{
		{"(*state.Cluster).UpdateNode", "nodeNameToProviderID", "Node"},
		{"(*state.Cluster).UpdateNodeClaim", "nodeClaimNameToProviderID", "NodeClaim"},
	} {
		root := w.Fn(spec.root)
		if root == nil {
			out = append(out, core.Anchor(id, "ORDER", spec.root))
			continue
		}
		construct := "ORDER:" + spec.root + ":" + spec.field
		acc, cone := w.ConeMapAccesses(root, regexp.MustCompile(`^\$0\.`+spec.field+`$`), 4)
		keys := map[string]bool{}
		nUpd := 0
		for _, a := range acc {
			if a.Write {
				keys[a.Key] = true
				if !a.Del {
					nUpd++
				}
			}
		}
		isW, isR := map[ssa.Instruction]bool{}, map[ssa.Instruction]bool{}
		desc := map[ssa.Instruction]string{}
		nR := 0
		for _, a := range acc {
			desc[a.In] = w.RenderAccess(a) + " in " + core.FnName(a.Fn)
			switch {
			case a.Write:
				isW[a.In] = true
			case keys[a.Key] || a.Key == "*":
				isR[a.In] = true
				nR++
			}
		}
		// confirmed by hand: one update (Update*) and one delete (cleanup*); the comma-ok lookup of the change detection
		// (newStateFrom*) and the lookup of the old id (cleanup*)
		if nUpd < 1 || nR < 2 {
			out = append(out, core.Bad(id, "ORDER", construct, w.Pos(root.Pos()), fmt.Sprintf("vacuous: %d update(s) of %s[name] and %d read(s) of that entry found in %s and its helpers, 1 and 2 confirmed by hand — the identity bookkeeping moved (idiom not recognised)", nUpd, spec.field, nR, spec.root)))
			continue
		}
		total += len(isW) + nR
		for _, p := range w.EventOrder(root, cone, isW, isR) {
			d := func(in ssa.Instruction) string {
				if s, ok := desc[in]; ok {
					return "`" + clipStr(s, 110) + "`"
				}
				return "`" + clipStr(w.RenderInstr(in), 110) + "` (performs it)"
			}
			out = append(out, core.Bad(id, "ORDER", construct, w.InstrPos(p.First),
				fmt.Sprintf("in %s the %s name→provider-id entry is written by %s and read afterwards by %s (@%s): the provider-id change detection / the cleanup of the old id must see the entry recorded by the previous reconcile — after the overwrite old and new id always agree and the state node under the old provider id is never cleaned up",
					core.FnName(p.In), spec.what, d(p.First), d(p.Then), w.InstrPos(p.Then))))
		}
	}
	if len(out) == 0 {
		out = append(out, core.OK(id, "ORDER", "ORDER:Update*:name→id", total, "every read of the name→id entry precedes its overwrite in UpdateNode and UpdateNodeClaim (helpers included)"))
	}
	return out
}

// C11.IDEM1: updateForPod is an idempotent upsert. Its cone is updateForPod with its private helpers plus the methods it
// calls on the node's own aggregates ($0.hostPortUsage, $0.volumeUsage, …) with theirs. A per-pod record is a map keyed
// by the pod's NamespacedName that the cone updates.
//
//	(value)  the value stored does not derive from the map's previous content (no lookup / range / pass of the same map
//	         in the backward slice of the value, helpers with one return seen through);
//	(always) an aggregate method replaces or deletes the pod's entry on every path to a return (no "keep the first").
func c11IdempotentUpsert(w *core.World, id string) []core.Result {
	const up = "(*state.StateNode).updateForPod"
	fn := w.Fn(up)
	if fn == nil {
		return []core.Result{core.Anchor(id, "IDEM", up)}
	}
	roots := []*ssa.Function{fn}
	seenRoot := map[*ssa.Function]bool{fn: true}
	recv := regexp.MustCompile(`^\$0\.\w+$`)
	w.WithHelpers(fn, func(f *ssa.Function, _ ssa.Instruction) {
		for _, b := range f.Blocks {
			for _, in := range b.Instrs {
				call, ok := in.(*ssa.Call)
				if !ok {
					continue
				}
				callee := call.Call.StaticCallee()
				if callee == nil || callee.Signature.Recv() == nil || len(callee.Blocks) == 0 || len(call.Call.Args) == 0 ||
					!core.IsKarpenterFn(callee) || core.IsTestSupport(callee) || seenRoot[callee] {
					continue
				}
				if recv.MatchString(w.Render(call.Call.Args[0])) {
					seenRoot[callee] = true
					roots = append(roots, callee)
				}
			}
		}
	})
	if len(roots) < 3 {
		return []core.Result{core.Bad(id, "IDEM", "IDEM:"+up, w.Pos(fn.Pos()), fmt.Sprintf("vacuous: updateForPod calls %d method(s) on the node's own aggregates, 2 confirmed by hand (hostPortUsage, volumeUsage)", len(roots)-1))}
	}
	var out []core.Result
	n := 0
	seenMU := map[*ssa.MapUpdate]bool{}
	for _, r := range roots {
		perPod := map[string]bool{}
		w.WithHelpers(r, func(f *ssa.Function, _ ssa.Instruction) {
			for _, b := range f.Blocks {
				for _, in := range b.Instrs {
					mu, ok := in.(*ssa.MapUpdate)
					if !ok || seenMU[mu] {
						continue
					}
					mt, ok := mu.Map.Type().Underlying().(*types.Map)
					if !ok || core.TypeStr(mt.Key()) != "apim/types.NamespacedName" {
						continue
					}
					seenMU[mu] = true
					n++
					mapR := w.Render(mu.Map)
					perPod[mapR] = true
					if via := sliceReadsMap(w, f, mu.Value, mapR, map[ssa.Value]bool{}); via != "" {
						out = append(out, core.Bad(id, "IDEM", "IDEM:"+core.FnName(r)+":"+mapR, w.InstrPos(in),
							fmt.Sprintf("%s: the per-pod record %s[pod] is written with a value computed from the map's previous content (`%s` via `%s`): the update is not idempotent — a pod delivered twice (or recreated under the same name with other values) leaves more than a fresh computation from the API would",
								core.FnName(f), mapR, clipStr(w.Render(mu.Value), 90), clipStr(via, 70))))
					}
				}
			}
		})
		if r == fn {
			continue
		}
		for _, mapR := range core.SortedKeys(perPod) {
			q := regexp.QuoteMeta(mapR)
			for _, res := range (MPT{ID: id, Fn: core.FnName(r), Ret: core.RetAny, Gates: gates(G(`instr:^mapupdate `+q+`\[`, `instr:^call delete\(`+q+`, `))}).Check(w) {
				if res.Status != core.Discharged {
					res.Kind = "IDEM"
					res.Msg += " — the pod's entry in " + mapR + " is neither replaced nor deleted on that path: a pod delivered again keeps its stale record"
					out = append(out, res)
				}
			}
		}
	}
	// confirmed by hand: podRequests, podLimits, daemonSetRequests, daemonSetLimits, podDisruptionCosts in updateForPod;
	// reserved in HostPortUsage.Add; podVolumes in VolumeUsage.Add
	if n < 7 {
		out = append(out, core.Bad(id, "IDEM", "IDEM:"+up, w.Pos(fn.Pos()), fmt.Sprintf("vacuous: %d per-pod record updates found on the updateForPod path, 7 confirmed by hand", n)))
	}
	if len(out) == 0 {
		out = append(out, core.OK(id, "IDEM", "IDEM:"+up, n, fmt.Sprintf("%d per-pod records in %d functions: each overwritten with a value independent of the previous entry; aggregate methods replace or delete on every path", n, len(roots))))
	}
	return out
}

// sliceReadsMap: does the backward data slice of v (inside its function; calls of private helpers with a single return
// are entered) contain a read of the map rendered mapR? Returns the rendering of the reading value, "" if none.
func sliceReadsMap(w *core.World, owner *ssa.Function, v ssa.Value, mapR string, seen map[ssa.Value]bool) string {
	if v == nil || seen[v] || len(seen) > 4000 {
		return ""
	}
	seen[v] = true
	switch v.(type) {
	case *ssa.Const, *ssa.Parameter, *ssa.Global, *ssa.Function, *ssa.Builtin, *ssa.FreeVar:
		return ""
	}
	if _, isMap := v.Type().Underlying().(*types.Map); isMap && w.Render(v) == mapR {
		return w.Render(v)
	}
	switch x := v.(type) {
	case *ssa.Lookup:
		if w.Render(x.X) == mapR {
			return w.Render(x)
		}
	case *ssa.Range:
		if w.Render(x.X) == mapR {
			return "range " + mapR
		}
	case *ssa.Alloc:
		// a local: whatever is stored into it (or into its elements / fields)
		var follow func(addr ssa.Value) string
		follow = func(addr ssa.Value) string {
			refs := addr.Referrers()
			if refs == nil {
				return ""
			}
			for _, r := range *refs {
				switch y := r.(type) {
				case *ssa.Store:
					if y.Addr == addr {
						if s := sliceReadsMap(w, owner, y.Val, mapR, seen); s != "" {
							return s
						}
					}
				case *ssa.IndexAddr:
					if y.X == addr {
						if s := follow(y); s != "" {
							return s
						}
					}
				case *ssa.FieldAddr:
					if y.X == addr {
						if s := follow(y); s != "" {
							return s
						}
					}
				}
			}
			return ""
		}
		return follow(x)
	case *ssa.Call:
		if h, ret, leave, ok := w.EnterHelper(owner, x); ok {
			s := sliceReadsMap(w, h, ret, mapR, seen)
			leave()
			if s != "" {
				return s
			}
		}
	case *ssa.Extract:
		if h, ret, leave, ok := w.EnterHelper(owner, x); ok {
			s := sliceReadsMap(w, h, ret, mapR, seen)
			leave()
			if s != "" {
				return s
			}
		}
	}
	if in, ok := v.(ssa.Instruction); ok {
		for _, op := range in.Operands(nil) {
			if op == nil || *op == nil {
				continue
			}
			if s := sliceReadsMap(w, owner, *op, mapR, seen); s != "" {
				return s
			}
		}
	}
	return ""
}
