package props

import (
	"regexp"

	"golang.org/x/tools/go/ssa"

	"kverif/core"
)

// reservationCommitRules: NodeClaim.Add commits the reservation decision CanAdd made on EVERY path — the new list replaces
// the old one even when it is empty, and what is no longer held is released. A stale list survives otherwise: the claim
// stays pinned (FinalizeScheduling) to a reservation none of its remaining offerings carries (C01: no compatible
// available offering; C13: the launch request names a reservation the decision dropped; C17: the slot stays taken).
func reservationCommitRules(p string) []Rule {
	const add = "(*sched.NodeClaim).Add"
	return []Rule{
		POST{ID: p + ".RSV1", Fn: add, From: "", Must: []string{`^store \$0\.reservedOfferings = \$6$`}, Note: "every path through Add stores the new reservation list"},
		POST{ID: p + ".RSV1b", Fn: add, From: "", Must: []string{`^call \(\*sched\.NodeClaim\)\.releaseReservedOfferings\(\$0, \$0\.reservedOfferings, \$6\)$`}, Note: "…and releases what is no longer held"},
	}
}

// hostPortRules: host-port conflicts are judged the way the kubelet does. (1) GetHostPorts records every container port
// with a host port, and an empty hostIP as the wildcard address 0.0.0.0 (the API server leaves it empty); (2) two
// entries match iff protocol and port are equal and the addresses are equal or one of them is the wildcard; (3)
// Conflicts puts every reserved entry of every other pod to that test and fails on the first match.
func hostPortRules(p string) []Rule {
	const (
		get       = "scheduling.GetHostPorts"
		matches   = "(scheduling.HostPort).Matches"
		conflicts = "(*scheduling.HostPortUsage).Conflicts"
	)
	proto, port := `^\$0\.Protocol == \$1\.Protocol$`, `^\$0\.Port == \$1\.Port$`
	eq, u0, u1 := `^\(net\.IP\)\.Equal\(\$0\.IP, \$1\.IP\)$`, `^\(net\.IP\)\.IsUnspecified\(\$0\.IP\)$`, `^\(net\.IP\)\.IsUnspecified\(\$1\.IP\)$`
	return []Rule{
		// "no match" only for a different protocol, a different port, or two different specific addresses
		MPT{ID: p + ".HP1", Fn: matches, Ret: core.RetFalse, Min: 2, Gates: gates(
			G("-"+proto, "-"+port, "-"+eq), G("-"+proto, "-"+port, "-"+u0), G("-"+proto, "-"+port, "-"+u1))},
		MPT{ID: p + ".HP1b", Fn: matches, Ret: core.RetTrue, Gates: gates(G("+"+proto), G("+"+port), G("+"+eq, "+"+u0, "+"+u1))},
		// every reserved entry is put to Matches; a match of another pod's entry is an error
		ITER{ID: p + ".HP2", Fn: conflicts, Loop: `+^\(phi\(-1\|\(phi↺ \+ 1\)\) \+ 1\) < len\(next\(range\(\$0\.reserved\)\)#2\)$`, Gates: gates(
			G(`instr:^call \(scheduling\.HostPort\)\.Matches\(\$2\[.*\], next\(range\(\$0\.reserved\)\)#2\[.*\]\)$`))},
		ITER{ID: p + ".HP2b", Fn: conflicts, Loop: `+^\(phi\(-1\|\(phi↺ \+ 1\)\) \+ 1\) < len\(\$2\)$`, Gates: gates(
			G(`-^next\(range\(\$0\.reserved\)\)#0$`)), Note: "for every port of the pod the whole reservation map is walked"},
		IMPL{ID: p + ".HP2c", Fn: conflicts, Lit: `-^cr/client\.ObjectKeyFromObject\(<\*corev1\.Pod>\$1\) == next\(range\(\$0\.reserved\)\)#1$`, Not: core.RetNilConst,
			Note: "a matching entry of another pod is a conflict"},
		DOM{ID: p + ".HP2d", Fn: conflicts, Sink: `^return (opkg/serrors\.Wrap|fmt\.Errorf)\(`, Gates: gates(
			G(`+^\(scheduling\.HostPort\)\.Matches\(\$2\[.*\], next\(range\(\$0\.reserved\)\)#2\[.*\]\)$`))},
		// every container port with a host port is recorded
		ITER{ID: p + ".HP3", Fn: get, Loop: `+^\(phi\(-1\|\(phi↺ \+ 1\)\) \+ 1\) < len\(\$0\.Spec\.Containers\[.*\]\.Ports\)$`, Gates: gates(
			G(`+^\$0\.Spec\.Containers\[.*\]\.Ports\[.*\]\.HostPort == 0$`, `instr:^store &local<scheduling\.HostPort>\.IP = `))},
		core.Custom{ID: p + ".HP4", Kind: "PROV", Run: func(w *core.World, id string) []core.Result {
			fn := w.Fn(get)
			if fn == nil {
				return []core.Result{core.Anchor(id, "PROV", get)}
			}
			construct := "PROV:" + get + ":wildcard"
			sites := w.SitesOr(fn, regexp.MustCompile(`^store &local<scheduling\.HostPort>\.IP = `), false, 1)
			if len(sites) != 1 {
				return []core.Result{core.Bad(id, "PROV", construct, w.Pos(fn.Pos()), "the recorded address is no longer stored at exactly one site (idiom not recognised)")}
			}
			st, _ := sites[0].(*ssa.Store)
			var call *ssa.Call
			if st != nil {
				call, _ = st.Val.(*ssa.Call)
			}
			if call == nil || w.CalleeName(call.Common()) != "net.ParseIP" || len(call.Call.Args) != 1 {
				return []core.Result{core.Bad(id, "PROV", construct, w.InstrPos(sites[0]), "the recorded address is not net.ParseIP(<host ip>) (idiom not recognised)")}
			}
			phi, ok := call.Call.Args[0].(*ssa.Phi)
			if !ok {
				return []core.Result{core.Bad(id, "PROV", construct, w.InstrPos(call), "the address parsed is `"+w.Render(call.Call.Args[0])+"`: an empty hostIP is not replaced by the wildcard 0.0.0.0, so net.ParseIP yields nil, which matches nothing — a wildcard binding no longer conflicts with a specific one")}
			}
			emptyCut := w.GateCut(phi.Parent(), G(`-^\$0\.Spec\.Containers\[.*\]\.Ports\[.*\]\.HostIP == ""$`))
			nconst := 0
			for k, e := range phi.Edges {
				if c, isC := e.(*ssa.Const); isC {
					if c.Value == nil || c.Value.ExactString() != `"0.0.0.0"` {
						return []core.Result{core.Bad(id, "PROV", construct, w.InstrPos(call), "the default address is "+w.Render(e)+", not the wildcard 0.0.0.0")}
					}
					nconst++
					continue
				}
				// the pod's own hostIP flows in only on the edge where it is not empty
				if core.EdgeReachable(phi.Block().Preds[k], phi.Block(), emptyCut) {
					return []core.Result{core.Bad(id, "PROV", construct, w.InstrPos(call), "an empty hostIP can reach net.ParseIP (nil address: matches nothing) instead of being read as the wildcard 0.0.0.0")}
				}
			}
			if nconst == 0 {
				return []core.Result{core.Bad(id, "PROV", construct, w.InstrPos(call), "no wildcard default")}
			}
			return []core.Result{core.OK(id, "PROV", construct, 1, "empty hostIP ⇒ 0.0.0.0; a specific hostIP is parsed as given")}
		}},
	}
}

// subtractMaxRows: the headroom left to a NodePool after a NodeClaim was planned keeps exactly the keys of the limits it
// was computed from, each reduced by the worst case (per-resource maximum of the instance types' Capacity). C03 needs it
// for the limit itself; C19 because a key that is not a limit (negative "remaining memory" of a pool that only limits
// cpu) makes filterByRemainingResources reject every instance type, so pods silently fall to a lower-weight NodePool.
func subtractMaxRows(w *core.World, id string) []core.Result {
			const sm = "sched.subtractMax"
			rs := core.InstrPresent(w, id, "PROV", sm, `^store &local<\[1\]corev1\.ResourceList>\[0\] = \$1\[.*\]\.Capacity$`, 1, "each instance type contributes its Capacity")
			rs = append(rs, core.InstrPresent(w, id, "PROV", sm, `^call utils/resources\.MaxResources\(phi\(nil\|append\(phi↺, …\[:\]\)\)\)$`, 1, "the worst case over all instance types is taken")...)
			rs = append(rs, core.InstrPresent(w, id, "PROV", sm, `^call \(\*apim/api/resource\.Quantity\)\.Sub\(\(apim/api/resource\.Quantity\)\.DeepCopy\(next\(range\(…\)\)#2\), utils/resources\.MaxResources\(phi\(…\)\)\[next\(range\(\$0\)\)#1\]\)$`, 1, "and subtracted from each remaining resource")...)
			rs = append(rs, core.InstrPresent(w, id, "PROV", sm, `^mapupdate makemap<corev1\.ResourceList>\[next\(range\(\$0\)\)#1\] = \(apim/api/resource\.Quantity\)\.DeepCopy\(next\(range\(\$0\)\)#2\)$`, 1, "the result keeps every key of the remaining list")...)
			return rs
}
