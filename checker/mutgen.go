package main

// mutgen — enumerates single-site source variants ("mutants") of the functions in the given files, for the self-test
// sweep (selftest/sweep.py): it measures which constructs of the anchored code are *bound* by some rule, i.e. where a
// change of a condition, an operator, a dropped statement, an alias instead of a copy … makes a check report. It is a
// gap finder for the tables, not a check: nothing here decides a property.

import (
	"bytes"
	"encoding/json"
	"fmt"
	"go/ast"
	"go/parser"
	"go/printer"
	"go/token"
	"os"
	"path/filepath"
	"regexp"
	"strings"
)

type mutant struct {
	File  string `json:"file"`
	Func  string `json:"func"`
	Line  int    `json:"line"`
	Op    string `json:"op"`
	Start int    `json:"start"`
	End   int    `json:"end"`
	New   string `json:"new"`
	Old   string `json:"old"`
}

var noiseStmt = regexp.MustCompile(`^(log\.|logger\.|klog\.|fmt\.Print|.*\.V\(\d\)\.|.*log\.FromContext|.*[rR]ecorder\.Publish|.*Metric|.*metrics\.|.*\.WithLabelValues|.*[cC]ounter\.|.*[gG]auge\.|.*Histogram|.*Duration\.Observe|.*\.Observe\(|.*\.Inc\(\)|ctx = |ctx, |defer )`)

func mutgen(repo string, files []string) {
	enc := json.NewEncoder(os.Stdout)
	for _, rel := range files {
		path := filepath.Join(repo, rel)
		src, err := os.ReadFile(path)
		if err != nil {
			fmt.Fprintln(os.Stderr, "skip", rel, err)
			continue
		}
		fset := token.NewFileSet()
		f, err := parser.ParseFile(fset, path, src, parser.ParseComments)
		if err != nil {
			fmt.Fprintln(os.Stderr, "skip", rel, err)
			continue
		}
		off := func(p token.Pos) int { return fset.Position(p).Offset }
		text := func(n ast.Node) string { return string(src[off(n.Pos()):off(n.End())]) }
		for _, d := range f.Decls {
			fd, ok := d.(*ast.FuncDecl)
			if !ok || fd.Body == nil {
				continue
			}
			fname := fd.Name.Name
			if fd.Recv != nil && len(fd.Recv.List) > 0 {
				var b bytes.Buffer
				printer.Fprint(&b, fset, fd.Recv.List[0].Type)
				fname = "(" + b.String() + ")." + fname
			}
			if strings.HasPrefix(fd.Name.Name, "DeepCopy") {
				// generated deep copies: only the alias operator below is interesting, handled by COPY rules' own mutants
				continue
			}
			emit := func(op string, n ast.Node, start, end int, repl string) {
				old := string(src[start:end])
				if len(old) > 160 {
					old = old[:160] + "…"
				}
				enc.Encode(mutant{File: rel, Func: fname, Line: fset.Position(n.Pos()).Line, Op: op, Start: start, End: end, New: repl, Old: old})
			}
			simpleCond := map[ast.Expr]bool{}
			ast.Inspect(fd.Body, func(n ast.Node) bool {
				switch x := n.(type) {
				case *ast.IfStmt:
					emit("NEG", x, off(x.Cond.Pos()), off(x.Cond.End()), "!("+text(x.Cond)+")")
					if be, ok := x.Cond.(*ast.BinaryExpr); ok && (be.Op == token.EQL || be.Op == token.NEQ) {
						simpleCond[be] = true
					}
					// guard clause dropped: `if c { …; return/continue/break }` without else
					if x.Else == nil && x.Init == nil && len(x.Body.List) > 0 {
						switch x.Body.List[len(x.Body.List)-1].(type) {
						case *ast.ReturnStmt, *ast.BranchStmt:
							emit("DELIF", x, off(x.Pos()), off(x.End()), "")
						}
					}
				case *ast.BinaryExpr:
					var r string
					switch x.Op {
					case token.LSS:
						r = "<="
					case token.LEQ:
						r = "<"
					case token.GTR:
						r = ">="
					case token.GEQ:
						r = ">"
					case token.EQL:
						r = "!="
					case token.NEQ:
						r = "=="
					case token.LAND:
						r = "||"
					case token.LOR:
						r = "&&"
					}
					if r != "" && !simpleCond[x] {
						emit("OP"+x.Op.String()+"→"+r, x, off(x.OpPos), off(x.OpPos)+len(x.Op.String()), r)
					}
				case *ast.ExprStmt:
					t := text(x)
					if !noiseStmt.MatchString(t) {
						emit("DEL", x, off(x.Pos()), off(x.End()), "")
					}
				case *ast.AssignStmt:
					t := text(x)
					if x.Tok != token.DEFINE && !noiseStmt.MatchString(t) {
						// `x = f()` / `x += y` / `m[k] = v` dropped; keep variables used (`_ = lhs` is not needed for plain assignment)
						emit("DEL", x, off(x.Pos()), off(x.End()), "")
					}
				case *ast.IncDecStmt:
					emit("DEL", x, off(x.Pos()), off(x.End()), "")
				case *ast.BranchStmt:
					if x.Label == nil {
						if x.Tok == token.CONTINUE {
							emit("CONT→BREAK", x, off(x.Pos()), off(x.End()), "break")
						} else if x.Tok == token.BREAK {
							emit("BREAK→CONT", x, off(x.Pos()), off(x.End()), "continue")
						}
					}
				case *ast.ReturnStmt:
					for _, r := range x.Results {
						if id, ok := r.(*ast.Ident); ok && (id.Name == "true" || id.Name == "false") {
							emit("BOOL", id, off(id.Pos()), off(id.End()), map[string]string{"true": "false", "false": "true"}[id.Name])
						}
					}
				case *ast.CallExpr:
					if se, ok := x.Fun.(*ast.SelectorExpr); ok {
						switch se.Sel.Name {
						case "DeepCopy":
							if len(x.Args) == 0 {
								emit("ALIAS", x, off(x.Pos()), off(x.End()), text(se.X))
							}
						case "Before":
							emit("TIME", se.Sel, off(se.Sel.Pos()), off(se.Sel.End()), "After")
						case "After":
							if len(x.Args) == 1 {
								emit("TIME", se.Sel, off(se.Sel.Pos()), off(se.Sel.End()), "Before")
							}
						case "Filter", "Reject":
							if id, ok := se.X.(*ast.Ident); ok && id.Name == "lo" {
								emit("FILTER", se.Sel, off(se.Sel.Pos()), off(se.Sel.End()), map[string]string{"Filter": "Reject", "Reject": "Filter"}[se.Sel.Name])
							}
						case "Compatible":
							emit("COMPAT→INTERSECTS", se.Sel, off(se.Sel.Pos()), off(se.Sel.End()), "Intersects")
						case "IsTrue":
							if len(x.Args) == 0 {
								emit("COND", se.Sel, off(se.Sel.Pos()), off(se.Sel.End()), "IsFalse")
							}
						}
					}
					if id, ok := x.Fun.(*ast.Ident); ok && (id.Name == "min" || id.Name == "max") {
						emit("MINMAX", id, off(id.Pos()), off(id.End()), map[string]string{"min": "max", "max": "min"}[id.Name])
					}
				}
				return true
			})
		}
	}
}
