#!/usr/bin/env python3
"""process_round.py <round-no> <seed-dir>... : for each delivered seed directory (patch.diff, zz_seed_*_test.go, meta.json):
confirm it independently in a scratch worktree (confirm_seed.sh), run the property's check on a scratch copy with the patch
applied (first-run result, recorded in meta.json as first_run / round), and install the confirmed ones under /verif/seeded/."""
import json, os, subprocess, sys, concurrent.futures as cf
HERE = os.path.dirname(os.path.abspath(__file__)); sys.path.insert(0, HERE)
import run_mutants as rm

rnd = int(sys.argv[1])
dirs = [os.path.abspath(d) for d in sys.argv[2:] if os.path.exists(os.path.join(d, "patch.diff")) and os.path.exists(os.path.join(d, "meta.json"))]


def confirm(d):
    if os.path.exists(os.path.join(d, "confirm.json")) and json.load(open(os.path.join(d, "confirm.json"))).get("confirmed"):
        return d, "already confirmed"
    r = subprocess.run([os.path.join(HERE, "confirm_seed.sh"), d], capture_output=True, text=True)
    return d, (r.stdout.strip().splitlines() or ["?"])[-1]


def check(d):
    meta = json.load(open(os.path.join(d, "meta.json")))
    m = dict(id=os.path.basename(d), props=[meta["property"]], tier="quick", patch=os.path.join(d, "patch.diff"), expect=["C"])
    r = rm.run_one(m)
    return d, r


with cf.ThreadPoolExecutor(3) as ex:
    for d, msg in ex.map(confirm, dirs):
        print("confirm", os.path.basename(d), msg, flush=True)
with cf.ThreadPoolExecutor(4) as ex:
    for d, r in ex.map(check, dirs):
        mf = os.path.join(d, "meta.json")
        meta = json.load(open(mf))
        fired = r.get("fired", [])
        meta["round"] = rnd
        meta["first_run"] = dict(caught=bool(fired), fired=fired)
        if fired:
            meta["caught_by"] = fired
        json.dump(meta, open(mf, "w"), indent=1)
        print("check  ", os.path.basename(d), "CAUGHT" if fired else r["verdict"], fired, "—", meta.get("summary", "")[:100], flush=True)
subprocess.run([sys.executable, os.path.join(HERE, "install_seed.py")] + dirs)
