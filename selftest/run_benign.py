#!/usr/bin/env python3
"""run_benign.py <dir>... : apply behaviour-preserving refactorings (patch.diff) to scratch copies of /repo and run ALL checks;
any obligation that fires is a false alarm."""
import json, os, sys, concurrent.futures as cf
HERE = os.path.dirname(os.path.abspath(__file__)); sys.path.insert(0, HERE)
import run_mutants as rm
import subprocess
subprocess.run([os.path.join(rm.VERIF, "run.sh"), "build"], check=True)
ms = []
for d in sys.argv[1:]:
    if not os.path.exists(os.path.join(d, "patch.diff")):
        continue
    meta = json.load(open(os.path.join(d, "meta.json"))) if os.path.exists(os.path.join(d, "meta.json")) else {}
    ms.append(dict(id=os.path.basename(d.rstrip("/")), props=["all"], tier="quick", patch=os.path.join(d, "patch.diff"), expect=[], what=meta.get("style", "") + ": " + meta.get("summary", "")[:120]))
bad = 0
with cf.ThreadPoolExecutor(6) as ex:
    for r in ex.map(rm.run_one, ms):
        if r["verdict"] != "SILENT-OK":
            bad += 1
        print(f'{r["id"]:8} {r["verdict"]:12} {r.get("fired", r.get("detail",""))}  — {r.get("what","")[:130]}', flush=True)
print(f"\n{len(ms)-bad}/{len(ms)} refactorings leave every check silent")
