# Single-site mutants of /repo used to test the checker (see run_mutants.py).
# Each mutant still compiles; `expect` lists obligation ids (prefix match) of which at least one must fire.
P = "pkg/controllers/"
SCHED = P + "provisioning/scheduling/"


def M(id, props, file, find, replace, expect, what="", regex=False, tier="quick"):
    return dict(id=id, props=props if isinstance(props, list) else [props], tier=tier, what=what,
                edits=[dict(file=file, find=find, replace=replace, regex=regex)],
                expect=expect if isinstance(expect, list) else [expect])


MUTANTS = [
    # ---- C03
    M("M12", "C03", P + "provisioning/provisioner.go",
      "	if err := latest.Spec.Limits.ExceededBy(p.cluster.NodePoolResourcesFor(n.NodePoolName)); err != nil {\n		return \"\", err\n	}\n",
      "	if err := latest.Spec.Limits.ExceededBy(p.cluster.NodePoolResourcesFor(n.NodePoolName)); err != nil {\n		log.FromContext(ctx).Error(err, \"limits exceeded\")\n	}\n",
      "C03.DOM1", "limits check no longer stops the create"),
    M("M13", ["C03"], P + "provisioning/provisioner.go", "	p.cluster.UpdateNodeClaim(nodeClaim)\n", "", "C03.POST1", "created NodeClaim not recorded in cluster state"),
    M("M14", "C03", SCHED + "scheduler.go",
      "		s.remainingResources[newNodeClaim.NodePoolName] = subtractMax(s.remainingResources[newNodeClaim.NodePoolName], newNodeClaim.InstanceTypeOptions)\n", "",
      ["C03.POST2", "C03.MPT2"], "headroom not decremented for a planned claim"),
    M("M15", "C03", P + "state/cluster.go",
      "			if providerID == \"\" {\n				return false\n			}\n		}\n		return true",
      "			if providerID == \"\" {\n				continue\n			}\n		}\n		return true", ["C03.SYM1"], "hasSynced fast path ignores unlaunched NodeClaims"),
    M("M16", "C03", P + "provisioning/provisioner.go",
      "			errs[i] = fmt.Errorf(\"creating node claim, %w\", err)\n",
      "			errs[i] = fmt.Errorf(\"creating node claim, %w\", err)\n			return\n", "C03.POST3", "reservation leaked when Create fails"),
    M("M17", "C03", P + "provisioning/provisioner.go",
      "	if !p.cluster.Synced(ctx) {\n		return reconciler.Result{RequeueAfter: singleton.RequeueImmediately}, nil\n	}\n",
      "	if !p.cluster.Synced(ctx) {\n		log.FromContext(ctx).V(1).Info(\"cluster state not synced\")\n	}\n", "C03.DOM2", "scheduling without sync"),
    M("M03a", "C03", P + "state/statenodepool.go",
      "	reserved, ok := n.nodePoolNameToNodePoolLimit[npName]\n	if !ok {\n		return\n	}\n", "	reserved := n.nodePoolNameToNodePoolLimit[npName]\n",
      "C03.SYM2", "F1 re-introduced: release after GC derefs nil"),
    M("M03b", "C03", P + "state/statenodepool.go", " && npState.PendingDisruption.Len() == 0", "", "C03.FCOV1", "F2 re-introduced"),
    M("M03c", "C03", P + "state/statenodepool.go",
      "func (n *NodePoolState) MarkNodeClaimDeleting(npName, ncName string) {\n	n.mu.Lock()\n	defer n.mu.Unlock()\n",
      "func (n *NodePoolState) MarkNodeClaimDeleting(npName, ncName string) {\n", "C03.LOCK1", "lock dropped in MarkNodeClaimDeleting"),
    M("M03d", "C03", P + "state/statenodepool.go", "remainingLimit := limit - int64(active+deleting+pendingdisruption) - currentlyReserved",
      "_ = pendingdisruption\n		remainingLimit := limit - int64(active+deleting) - currentlyReserved", "C03.ORD2", "pending-disruption nodes not counted against the limit"),
    M("M03e", "C03", P + "static/provisioning/controller.go", "	for range countNodeClaimsToProvision {", "	for range desiredReplicas - int64(runningNodeClaims) {",
      "C03.PROV4", "claims built from the wanted count, not the grant"),
    M("M03f", "C03", SCHED + "scheduler.go", "			if resources.Cmp(itResources[resourceName], remainingQuantity) > 0 {\n				viableInstance = false\n			}",
      "			if resources.Cmp(itResources[resourceName], remainingQuantity) > 0 && resourceName != corev1.ResourceMemory {\n				viableInstance = false\n			}",
      "C03.CMP1", "memory limit not enforced by the filter"),
    M("M03g", "C03", P + "disruption/staticdrift.go", "for _, c := range npCandidates[:maxAllowedDrifts] {", "for _, c := range npCandidates[:maxDrifts] {",
      "C03.PROV6", "static drift disrupts more than it reserved"),
    M("M03h", "C03", P + "state/statenodepool.go", "		n.MarkNodeClaimDeleting(npName, nodeClaim.Name)\n	} else {", "		n.MarkNodeClaimDeleting(npName, nodeClaim.Name)\n		n.nodePoolNameToNodeClaimState[npName].Active.Delete(nodeClaim.Name)\n	} else {",
      ["C03.LOCK1", "C03.SYM2"], "unlocked, unguarded map access added to UpdateNodeClaim"),

    # ---- C16
    M("M61", "C16", P + "nodeclaim/expiration/controller.go", "expirationTime := nodeClaim.CreationTimestamp.Add(*nodeClaim.Spec.ExpireAfter.Duration)",
      "expirationTime := nodeClaim.CreationTimestamp.Add(*nodeClaim.Spec.ExpireAfter.Duration / 2)", "C16.DOM1", "expiry computed from half the duration"),
    M("M61b", "C16", P + "nodeclaim/expiration/controller.go", "	if nodeClaim.Spec.ExpireAfter.Duration == nil {\n		return reconcile.Result{}, nil\n	}\n	expirationTime := nodeClaim.CreationTimestamp.Add(*nodeClaim.Spec.ExpireAfter.Duration)",
      "	var expireAfter time.Duration\n	if nodeClaim.Spec.ExpireAfter.Duration != nil {\n		expireAfter = *nodeClaim.Spec.ExpireAfter.Duration\n	}\n	expirationTime := nodeClaim.CreationTimestamp.Add(expireAfter)", "C16.DOM1", "disabled expiry (Never) treated as zero duration", ),
    M("M62", "C16", P + "nodeclaim/garbagecollection/controller.go", "		return n.StatusConditions().Get(v1.ConditionTypeRegistered).IsTrue() &&\n			n.DeletionTimestamp.IsZero() &&",
      "		return n.DeletionTimestamp.IsZero() &&", "C16.MPT1", "GC no longer restricted to registered NodeClaims"),
    M("M62b", "C16", P + "nodeclaim/garbagecollection/controller.go", "			errs[i] = err\n			return\n", "			errs[i] = err\n", "C16.ERR1", "F5 re-introduced: falls through to Delete after a failed lookup"),
    M("M62c", "C16", P + "nodeclaim/garbagecollection/controller.go", "if node != nil && nodeutils.GetCondition(node, corev1.NodeReady).Status == corev1.ConditionTrue {",
      "if node != nil && nodeutils.GetCondition(node, corev1.NodeReady).Status == corev1.ConditionTrue && node.DeletionTimestamp.IsZero() {", "C16.DOM2", "Ready node that is terminating is garbage collected"),
    M("M62d", "C16", P + "nodeclaim/garbagecollection/controller.go", "		return nc.Status.ProviderID\n", "		return nc.Name\n", "C16.PROV2", "provider set keyed by name instead of provider id"),
    M("M63", "C16", P + "node/health/controller.go", "		nodePoolHealthy, err := c.isNodePoolHealthy(ctx, nodePoolName)\n		if err != nil {\n			return reconcile.Result{}, client.IgnoreNotFound(err)\n		}\n		if !nodePoolHealthy {",
      "		nodePoolHealthy, err := c.isNodePoolHealthy(ctx, nodePoolName)\n		if err != nil {\n			log.FromContext(ctx).Error(err, \"checking nodepool health\")\n		}\n		if err == nil && !nodePoolHealthy {", ["C16.ERR2", "C16.DOM4"], "health lookup error ignored, repair proceeds"),
    M("M63b", "C16", P + "node/health/controller.go", "len(nodeList.Items), true))", "len(nodeList.Items), false))", ["C16.PROV1", "C16.MPT2"], "threshold rounds down"),
    M("M63c", "C16", P + "node/health/controller.go", "	return unhealthyNodeCount <= threshold, nil", "	return unhealthyNodeCount <= threshold+1, nil", "C16.MPT2", "off by one in the circuit breaker"),
    M("M63d", "C16", P + "nodeclaim/lifecycle/liveness.go", "registrationTimeout - l.clock.Since(registered.LastTransitionTime.Time)", "registrationTimeout - l.clock.Since(nodeClaim.CreationTimestamp.Time)",
      "C16.DOM3b", "registration timeout measured from creation instead of the condition transition"),
    M("M63e", "C16", P + "node/health/controller.go", "	if c.clock.Now().Before(terminationTime) {\n		return reconcile.Result{RequeueAfter: terminationTime.Sub(c.clock.Now())}, nil\n	}\n", "	_ = terminationTime\n",
      "C16.DOM4", "toleration window not awaited"),
    M("M63f", "C16", P + "nodeclaim/consistency/controller.go", "func (c *Controller) Reconcile(ctx context.Context, nodeClaim *v1.NodeClaim) (reconcile.Result, error) {\n",
      "func (c *Controller) Reconcile(ctx context.Context, nodeClaim *v1.NodeClaim) (reconcile.Result, error) {\n	if nodeClaim.Labels[\"x\"] == \"gone\" {\n		_ = c.kubeClient.Delete(ctx, nodeClaim)\n	}\n", "C16.WMC1", "a new, unclassified reaper"),
]
