#!/bin/bash
# usage: check.sh <worktree>   — builds the tree and runs the pinned baseline suite (the packages of the 45 stable tests of
# /root/.vp/BASELINE.json); prints "BASELINE OK (45/45)" when every stable test still passes, "BASELINE BROKEN ..." otherwise.
set -u
WT=${1:?worktree}
export PATH=/opt/veriftools/go1.26.8/bin:$PATH GOFLAGS=-mod=mod GOPROXY=off GOSUMDB=off GOTOOLCHAIN=local
unset GOWORK
cd "$WT" || exit 2
go build ./... 2>&1 | tail -20 || true
if ! go build ./... >/dev/null 2>&1; then echo "BASELINE BROKEN (build failed)"; exit 1; fi
if ! go vet ./pkg/... >/dev/null 2>&1; then :; fi
pkgs=$(python3 - <<'PY'
import json
b=json.load(open('/root/.vp/BASELINE.json'))
print(' '.join(sorted({t.split('::')[0].replace('sigs.k8s.io/karpenter','.') for t in b['stable_pass']})))
PY
)
out=$(mktemp /tmp/baseline.XXXX.json)
go test -json -vet=off -count=1 -timeout 25m $pkgs > "$out" 2>/dev/null
python3 - "$out" <<'PY'
import json,sys
b=json.load(open('/root/.vp/BASELINE.json'))
want=set(b['stable_pass'])
passed=set()
for line in open(sys.argv[1], errors='replace'):
    try: e=json.loads(line)
    except Exception: continue
    if e.get('Action')=='pass' and e.get('Test'):
        passed.add(e['Package']+'::'+e['Test'])
miss=sorted(want-passed)
if miss:
    print('BASELINE BROKEN (%d/%d): missing %s' % (len(want)-len(miss), len(want), miss[:5])); sys.exit(1)
print('BASELINE OK (%d/%d)' % (len(want), len(want)))
PY
rc=$?
rm -f "$out"
exit $rc
