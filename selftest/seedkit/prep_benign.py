#!/usr/bin/env python3
"""prep_benign.py <round-dir> <out-dir> <first-variant-number> [props...] : one scratch worktree of /repo per property under
<round-dir>/<Cnn> and the sub-agent prompt (<round-dir>/<Cnn>.prompt.txt) asking for three BEHAVIOUR-PRESERVING refactorings
(property text only - nothing from /verif). The deliveries are the controls a check must stay silent on."""
import json, os, subprocess, sys
VERIF = os.path.dirname(os.path.dirname(os.path.dirname(os.path.abspath(__file__))))
rd, od, first = sys.argv[1], sys.argv[2], int(sys.argv[3])
want = set(sys.argv[4:])
SHAPES = [
 "extract: move a condition, a group of checks, a loop body or a block of bookkeeping into a new unexported helper function or method (or inline an existing small unexported helper into its caller)",
 "restructure control flow: collapse or un-nest ifs, invert a branch, turn if/else chains into early returns or a switch (or back), merge or split conditions, swap the order of independent statements or independent checks",
 "free choice: whatever cleanup a maintainer would plausibly do here - temporaries and renames, hoisting, replacing a hand-written loop by a standard-library / samber-lo helper or the reverse, a method turned into a function taking the receiver (or back), a small data-structure tidy-up - as long as behaviour is exactly preserved",
]
for line in open(os.path.join(VERIF, "properties.jsonl")):
    p = json.loads(line)
    pid = p["id"]
    if want and pid not in want:
        continue
    wt = os.path.join(rd, pid)
    if not os.path.exists(wt):
        subprocess.run(["git", "-C", "/repo", "worktree", "add", "--detach", wt, "HEAD"], check=True, capture_output=True)
    ids = [f"{pid}r{first+i}" for i in range(3)]
    shapes = "\n".join(f"  - {ids[i]}: {SHAPES[i]}" for i in range(3))
    prompt = f"""You are helping to evaluate a verification effort for kubernetes-sigs/karpenter (Karpenter core, Go). You get the text of ONE semantic property that the code base satisfies and a private scratch git worktree of the repository at {wt} (detached HEAD). Work ONLY inside {wt} and {od}; never touch /repo, and do not read anything under /verif or /root/.vp.

THE PROPERTY (JSON):
{json.dumps(p, indent=1)}

YOUR TASK: produce 3 separate, independent BEHAVIOUR-PRESERVING refactorings of the (non-test) source code this property depends on - the functions named in the property's anchors/mechanism AND the lower-level helpers they call (pkg/utils, pkg/scheduling, pkg/cloudprovider/types.go, cluster-state bookkeeping ...). Each is the kind of edit a maintainer makes in a cleanup PR: realistic, 5-40 changed lines, touching one to three functions, and it must leave the behaviour of the program EXACTLY unchanged for every input, schedule and error path (same results, same side effects in the same order as far as any caller or API server can observe, same errors returned on the same conditions, no change in what is copied vs aliased, no change in evaluation of calls with side effects). Shapes:
{shapes}
The three refactorings must be in different functions (preferably different files) from one another, each patch is relative to the pristine HEAD (not stacked), and each should touch code that MATTERS for the property (a guard, an ordering, a bookkeeping step, a copy, a comparison the property relies on) - not comments, logging or metrics. Do not edit any *_test.go file, anything under pkg/test/ or any fake/ package. Do not add build tags or exported API.

For EACH refactoring <ID> (IDs: {", ".join(ids)}) deliver a directory {od}/<ID>/ containing:
  1. patch.diff - `git diff` of the change against pristine HEAD.
  2. meta.json - {{"property": "{pid}", "variant": "r<k>", "kind": "benign", "style": "<the shape, one phrase>", "summary": "<what was rewritten, one or two sentences>", "why_equivalent": "<the argument that behaviour is exactly preserved, including error paths, evaluation order of side-effecting calls, and aliasing>", "files": [...], "functions": [...], "baseline_ok": true}}

HOW TO WORK:
  - Every shell call needs:  export PATH=/opt/veriftools/go1.26.8/bin:$PATH GOFLAGS=-mod=mod GOPROXY=off GOSUMDB=off GOTOOLCHAIN=local; unset GOWORK   (no network; nothing can be downloaded).
  - Read the anchored code first and understand how the property is established, then pick sites.
  - Verify for each refactoring: `go build ./... && go vet ./<changed packages>` is clean, and `/tmp/seedkit/check.sh {wt}` prints "BASELINE OK (45/45)" with the change applied. Re-read your diff once more hunting for any behavioural difference (a dropped error path, a changed short-circuit, a nil case, an alias that used to be a copy, a different iteration order that is observable); if you find one, fix it or drop the refactoring.
  - Leave the worktree pristine at the end (`git -C {wt} checkout -- . && git -C {wt} clean -fdq`).
  - Final answer: the IDs delivered with one line each (what/where), and any ID you could not complete with the reason.
"""
    open(os.path.join(rd, pid + ".prompt.txt"), "w").write(prompt)
    print(pid, wt)
