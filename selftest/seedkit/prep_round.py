#!/usr/bin/env python3
"""prep_round.py <round-dir> <out-dir> <variants e.g. ghi> [props...] : creates one scratch worktree of /repo per property under
<round-dir>/<Cnn> and writes the sub-agent prompt to <round-dir>/<Cnn>.prompt.txt (property text only - nothing from /verif)."""
import json, os, subprocess, sys
VERIF = os.path.dirname(os.path.dirname(os.path.dirname(os.path.abspath(__file__))))
rd, od, variants = sys.argv[1], sys.argv[2], sys.argv[3]
want = set(sys.argv[4:])
FOCUS = {
 0: "needs a particular interleaving, ordering of events, or a multi-step sequence of operations (state left behind by an earlier step) to manifest",
 1: "needs an unusual but valid input or configuration (a boundary value, an empty / duplicate / unusual combination, a rarely used option) to manifest",
 2: "consists of two cooperating sites that each look fine alone (e.g. a helper whose contract shifts slightly and a caller that relied on the old contract), or sits in a lower-level helper that the property's main functions rely on rather than in those functions themselves",
}
for line in open(os.path.join(VERIF, "properties.jsonl")):
    p = json.loads(line)
    pid = p["id"]
    if want and pid not in want:
        continue
    wt = os.path.join(rd, pid)
    if not os.path.exists(wt):
        subprocess.run(["git", "-C", "/repo", "worktree", "add", "--detach", wt, "HEAD"], check=True, capture_output=True)
    ids = [pid + v for v in variants]
    focus = "\n".join(f"  - change {ids[i]}: {FOCUS[i % 3]}" for i in range(len(ids)))
    prompt = f"""You are helping to evaluate a verification effort for kubernetes-sigs/karpenter (Karpenter core, Go). You get the text of ONE semantic property that the code base is supposed to satisfy and a private scratch git worktree of the repository at {wt} (detached HEAD; the tree there currently satisfies the property). Work ONLY inside {wt} and {od}; never touch /repo, and do not read anything under /verif or /root/.vp (the point is that your work is independent of what already exists there).

THE PROPERTY (JSON):
{json.dumps(p, indent=1)}

YOUR TASK: produce {len(ids)} separate, independent changes to the (non-test) source of karpenter, each of which BREAKS this property while the repository still compiles and still passes its existing pinned test suite. Each change is a realistic, small edit (typically 1-15 lines, looks like something a maintainer could plausibly write: a refactoring gone slightly wrong, a simplification, an optimisation, a "cleanup", a wrong operand, a skipped bookkeeping step, a changed order, an alias instead of a copy, a swallowed error ...). Each must need something specific to manifest - not something ordinary use would expose at once:
{focus}
The {len(ids)} changes must be in different functions (preferably different files) from one another, and each patch is relative to the pristine HEAD (not stacked). Do not edit any *_test.go file, anything under pkg/test/ or any fake/ package in a patch. Do not add build tags. Avoid the trivially obvious "delete the main check in the property's main function" shape - prefer changes whose wrongness is subtle.

For EACH change <ID> (IDs: {", ".join(ids)}) deliver a directory {od}/<ID>/ containing:
  1. patch.diff — `git diff` of the change against pristine HEAD (source files only).
  2. zz_seed_<ID>_test.go — a demonstration: a plain Go `testing` test file (test functions named TestSeed<ID>...) placed in some package of the repository (you choose; state it in meta.json) that PASSES on the pristine tree and FAILS on the changed tree, demonstrating the property violation. It must run offline with `go test -vet=off -count=1 -run 'TestSeed<ID>' <pkg>`: no envtest / API server binary is available (suites that call test.NewEnvironment / envtest do not work here); use fakes (pkg/cloudprovider/fake, sigs.k8s.io/controller-runtime/pkg/client/fake, k8s.io/utils/clock/testing) or call the functions directly. If the package already has a Ginkgo suite with a TestXxx entry point that needs envtest, your file must not depend on it (use your own Test function with plain `testing`, and the -run filter selects only yours).
  3. meta.json — {{"property": "{pid}", "variant": "<letter>", "summary": "<one or two sentences: what the change does>", "manifests_when": "<what specific input / sequence / interleaving is needed for the violation to show>", "files": [...changed files...], "functions": [...changed functions...], "demo_pkg": "./pkg/...", "demo_file": "pkg/.../zz_seed_<ID>_test.go", "demo_run": "<exact go test command>", "baseline_ok": true}}

HOW TO WORK:
  - Every shell call needs:  export PATH=/opt/veriftools/go1.26.8/bin:$PATH GOFLAGS=-mod=mod GOPROXY=off GOSUMDB=off GOTOOLCHAIN=local; unset GOWORK   (no network; nothing can be downloaded).
  - Read the anchored code first, understand how the property is established, then pick sites. Changes in helpers / lower layers / wiring that the anchored functions rely on are welcome.
  - Verify yourself, for each change: (a) demo passes on pristine HEAD (`git -C {wt} stash` or `git -C {wt} checkout -- .` to get back to pristine; keep your demo file outside the tree or re-copy it), (b) demo fails with the change applied, (c) with the change applied (and the demo file removed) `/tmp/seedkit/check.sh {wt}` prints "BASELINE OK (45/45)" (this builds everything and runs the pinned suite, ~1-3 minutes).
  - Leave the worktree pristine at the end (`git -C {wt} checkout -- . && git -C {wt} clean -fdq`), and clean up any large temp files you created.
  - Final answer: a short list of the IDs delivered with one line each (what/where), and any ID you could not complete with the reason. Do not pad; if a change cannot be made to satisfy all conditions, drop it and try a different one.
"""
    open(os.path.join(rd, pid + ".prompt.txt"), "w").write(prompt)
    print(pid, wt)
