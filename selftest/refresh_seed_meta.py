#!/usr/bin/env python3
"""refresh_seed_meta.py [seed-name...] : for every installed seed that was missed on its first run and has no recorded catching
rule yet, re-run the property's check on a scratch copy with the patch applied and record the rules that now fire
(caught_by, strengthened.added_rules). Seeds still missed are listed."""
import glob, json, os, sys, concurrent.futures as cf
HERE = os.path.dirname(os.path.abspath(__file__)); sys.path.insert(0, HERE)
import run_mutants as rm
want = set(sys.argv[1:])
todo = []
for d in sorted(glob.glob(os.path.join(rm.VERIF, "seeded", "*"))):
    mf = os.path.join(d, "meta.json")
    if not os.path.exists(mf):
        continue
    m = json.load(open(mf))
    name = os.path.basename(d)
    if want and name not in want:
        continue
    if not want and (m.get("first_run", {}).get("caught") or m.get("caught_by")):
        continue
    todo.append((d, m))
def run(t):
    d, m = t
    return t, rm.run_one(dict(id=os.path.basename(d), props=[m["property"]], tier="quick", patch=os.path.join(d, "patch.diff"), expect=["C"]))
with cf.ThreadPoolExecutor(4) as ex:
    for (d, m), r in ex.map(run, todo):
        fired = r.get("fired", [])
        if fired:
            m["caught_by"] = fired
            if not m.get("first_run", {}).get("caught"):
                m["strengthened"] = dict(added_rules=fired, note="missed on first run; rule added, now caught")
            json.dump(m, open(os.path.join(d, "meta.json"), "w"), indent=1)
        print(os.path.basename(d), "CAUGHT" if fired else "STILL MISSED", fired, flush=True)
