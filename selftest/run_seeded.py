#!/usr/bin/env python3
"""Run the registered checks against seeded breaking changes.

usage: run_seeded.py [dir ...]      (default: /verif/seeded/*)
For every seed directory (patch.diff + meta.json): git -C /repo apply patch.diff, run `run.sh check <prop> quick`,
undo with git -C /repo checkout -- . ; prints which obligations fired. Never leaves /repo modified.
"""
import glob, json, os, re, subprocess, sys

REPO = "/repo"
VERIF = os.path.dirname(os.path.dirname(os.path.abspath(__file__)))


def sh(cmd, **kw):
    return subprocess.run(cmd, shell=True, capture_output=True, text=True, errors="replace", **kw)


def clean():
    return sh(f"git -C {REPO} status --porcelain").stdout.strip() == ""


def main():
    dirs = sys.argv[1:] or sorted(glob.glob(os.path.join(VERIF, "seeded", "*")))
    dirs = [d for d in dirs if os.path.exists(os.path.join(d, "patch.diff"))]
    if not clean():
        print("refusing: /repo working tree is not clean"); sys.exit(2)
    sh(f"{VERIF}/run.sh build")
    rows = []
    for d in dirs:
        meta = json.load(open(os.path.join(d, "meta.json")))
        prop = meta["property"]
        extra = meta.get("also_check", [])
        r = sh(f"git -C {REPO} apply {d}/patch.diff")
        if r.returncode != 0:
            rows.append((os.path.basename(d), prop, "PATCH-FAILED", [])); continue
        try:
            fired = set()
            tmpev = sh("mktemp -d /tmp/kvseed.XXXX").stdout.strip()
            sh(f"cp {VERIF}/known_findings.json {tmpev}/")
            for p in [prop] + extra:
                # evidence of a run against a modified tree must not overwrite the committed evidence
                out = sh(f"KVERIF_DIR={tmpev} KVERIF_REPO={REPO} {VERIF}/bin/kverif check {p} quick", env=dict(os.environ, PATH="/opt/veriftools/go1.26.8/bin:" + os.environ["PATH"], GOFLAGS="-mod=mod", GOPROXY="off", GOSUMDB="off", GOTOOLCHAIN="local"))
                fired |= set(re.findall(r"\[(C\d\d\.[A-Za-z0-9_]+) (?:violated|undecided)\]", out.stdout + out.stderr))
            sh(f"rm -rf {tmpev}")
        finally:
            sh(f"git -C {REPO} checkout -- .")
        rows.append((os.path.basename(d), prop, "CAUGHT" if fired else "MISSED", sorted(fired)))
        print(f"{rows[-1][0]:8} {rows[-1][2]:8} {rows[-1][3]}  — {meta.get('summary','')[:110]}", flush=True)
    assert clean()
    n = sum(1 for r in rows if r[2] == "CAUGHT")
    print(f"\n{n}/{len(rows)} seeded changes caught")
    json.dump([dict(seed=a, property=b, verdict=c, fired=d) for a, b, c, d in rows], open(os.path.join(VERIF, "selftest", "last_seeded.json"), "w"), indent=1)


if __name__ == "__main__":
    main()
