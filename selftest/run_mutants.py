#!/usr/bin/env python3
"""Self-test of the checker: apply single-site source mutants to a scratch copy of /repo and
confirm that the expected obligation fires (and that the unchanged copy is silent).

usage: run_mutants.py [-j N] [-k idsubstr] [--prop Cnn] [--sensitivity evidence.json] [--keep]
--prop Cnn            only the mutants (and the seeded changes under /verif/seeded/Cnn*) of that property
--sensitivity FILE    merge the outcome into coverage.sensitivity of that evidence file (variants that apply but are not
                      detected, and controls that raise an alarm, are listed there and printed as a warning)
Nothing under /repo or /verif (other than that evidence file) is modified; scratch copies live under $TMPDIR/kvmut.* and are removed.
"""
import argparse, json, os, re, shutil, subprocess, sys, tempfile, concurrent.futures as cf

HERE = os.path.dirname(os.path.abspath(__file__))
VERIF = os.path.dirname(HERE)
REPO = os.environ.get("KVERIF_REPO", "/repo")
sys.path.insert(0, HERE)
from mutants import MUTANTS  # noqa

ENV = dict(os.environ, PATH="/opt/veriftools/go1.26.8/bin:" + os.environ["PATH"], GOTOOLCHAIN="local",
           GOFLAGS="-mod=mod", GOPROXY="off", GOSUMDB="off")
ENV.pop("GOWORK", None)


def make_copy(dst):
    os.makedirs(dst)
    for d in ("pkg", "kwok"):
        shutil.copytree(os.path.join(REPO, d), os.path.join(dst, d), symlinks=True)
    for f in ("go.mod", "go.sum"):
        shutil.copy(os.path.join(REPO, f), dst)
    vd = os.path.join(dst, ".verif")
    os.makedirs(vd)
    shutil.copy(os.path.join(VERIF, "known_findings.json"), vd)
    return vd


def run_one(m, keep=False):
    tmp = tempfile.mkdtemp(prefix="kvmut.")
    dst = os.path.join(tmp, "repo")
    try:
        vd = make_copy(dst)
        if m.get("patch"):
            r = subprocess.run(["patch", "-p1", "-s", "-f", "-i", m["patch"]], cwd=dst, capture_output=True, text=True)
            if r.returncode != 0:
                return dict(id=m["id"], verdict="N/A", detail="seeded patch no longer applies")
        for e in m.get("edits", []):
            p = os.path.join(dst, e["file"])
            s = open(p).read()
            if e.get("regex"):
                s2, n = re.subn(e["find"], e["replace"], s, count=1, flags=re.S)
            else:
                n = s.count(e["find"])
                s2 = s.replace(e["find"], e["replace"], 1)
            if n == 0:
                return dict(id=m["id"], verdict="N/A", detail="anchor text not found in " + e["file"])
            open(p, "w").write(s2)
        fired, out_all = set(), ""
        for prop in m["props"]:
            env = dict(ENV, KVERIF_REPO=dst, KVERIF_DIR=vd)
            r = subprocess.run([os.path.join(VERIF, "bin", "kverif"), "check", prop, m.get("tier", "quick")],
                               capture_output=True, text=True, errors='replace', env=env)
            out_all += r.stdout + r.stderr
            for line in r.stdout.splitlines():
                mm = re.match(r"\s+\[(\S+) (violated|undecided)\]", line)
                if mm:
                    fired.add(mm.group(1))
        if any(f.endswith(".LOAD") for f in fired):
            return dict(id=m["id"], verdict="INVALID", detail="mutant does not type-check: " + out_all[-400:])
        expect = m["expect"]
        hit = [f for f in fired if any(f == x or f.startswith(x) for x in expect)]
        verdict = "CAUGHT" if hit else ("CAUGHT-OTHER" if fired else "MISSED")
        if not expect:
            verdict = "FALSE-ALARM" if fired else "SILENT-OK"
        return dict(id=m["id"], verdict=verdict, fired=sorted(fired), expect=expect, what=m.get("what", ""))
    finally:
        if not keep:
            shutil.rmtree(tmp, ignore_errors=True)


def seeded(prop):
    """the confirmed sub-agent changes kept under /verif/seeded/<prop><variant>/ as extra positive controls"""
    import glob
    out = []
    for d in sorted(glob.glob(os.path.join(VERIF, "seeded", prop + "*"))):
        mf = os.path.join(d, "meta.json")
        if not os.path.exists(mf) or not os.path.exists(os.path.join(d, "patch.diff")):
            continue
        meta = json.load(open(mf))
        exp = meta.get("caught_by") or []
        if not exp:
            continue
        out.append(dict(id="S" + os.path.basename(d), props=[prop], tier="quick", patch=os.path.join(d, "patch.diff"), expect=exp,
                        what="seeded: " + meta.get("summary", "")[:100]))
    # behaviour-preserving refactorings by sub-agents (/verif/benign/<prop>r<k>/): controls that must stay silent
    cands = sorted(glob.glob(os.path.join(VERIF, "benign", prop + "*")))
    for d in sorted(glob.glob(os.path.join(VERIF, "benign", "L*"))):
        mf = os.path.join(d, "meta.json")
        if os.path.exists(mf) and prop in json.load(open(mf)).get("props", []):
            cands.append(d)
    for d in cands:
        mf = os.path.join(d, "meta.json")
        if not os.path.exists(mf) or not os.path.exists(os.path.join(d, "patch.diff")):
            continue
        meta = json.load(open(mf))
        if meta.get("expected") != "silent":
            continue  # stated limitation (loop <-> lo.* rewrite), see DESIGN.md 9.9
        out.append(dict(id="B" + os.path.basename(d), props=[prop], tier="quick", patch=os.path.join(d, "patch.diff"), expect=[],
                        what="control (refactoring): " + meta.get("summary", "")[:100]))
    return out


def main():
    ap = argparse.ArgumentParser()
    ap.add_argument("-j", type=int, default=6)
    ap.add_argument("-k", default="")
    ap.add_argument("--prop", default="")
    ap.add_argument("--sensitivity", default="")
    ap.add_argument("--keep", action="store_true")
    a = ap.parse_args()
    if not a.sensitivity:
        subprocess.run([os.path.join(VERIF, "run.sh"), "build"], check=True)
    if a.prop:
        ms = [m for m in MUTANTS if m["props"] == [a.prop]] + seeded(a.prop)
    else:
        ms = [m for m in MUTANTS if a.k in m["id"] or a.k in ",".join(m["props"])]
    res = []
    with cf.ThreadPoolExecutor(a.j) as ex:
        for r in ex.map(lambda m: run_one(m, a.keep), ms):
            res.append(r)
            print(f'{r["id"]:8} {r["verdict"]:13} fired={r.get("fired","")} expect={r.get("expect","")} {r.get("detail","")}', flush=True)
    tot = len(res)
    caught = sum(r["verdict"] in ("CAUGHT", "SILENT-OK") for r in res)
    other = sum(r["verdict"] == "CAUGHT-OTHER" for r in res)
    print(f"\n{caught}/{tot} caught by the expected obligation, {other} by another, "
          f'{sum(r["verdict"]=="MISSED" for r in res)} missed, {sum(r["verdict"] in ("N/A","INVALID") for r in res)} n/a or invalid')
    if a.sensitivity:
        bad = [r for r in res if r["verdict"] in ("MISSED", "FALSE-ALARM")]
        ev = json.load(open(a.sensitivity))
        ev["coverage"]["sensitivity"] = dict(
            what="every rule instance is exercised both ways: the analysis is re-run on single-site variants of the current tree (hand-written mutants and the confirmed seeded changes of this property, applied to a scratch copy); a variant that breaks the rule's condition must be reported by that rule, a behaviour-preserving control must stay silent",
            variants=tot, detected=sum(r["verdict"] == "CAUGHT" for r in res), detected_by_other_rule=other,
            controls_silent=sum(r["verdict"] == "SILENT-OK" for r in res),
            not_applicable=[r["id"] for r in res if r["verdict"] in ("N/A", "INVALID")],
            undetected=[dict(id=r["id"], what=r.get("what", "")) for r in bad],
            cases=[dict(id=r["id"], verdict=r["verdict"], fired=r.get("fired", []), what=r.get("what", "")) for r in res])
        json.dump(ev, open(a.sensitivity, "w"), indent=1)
        if bad:
            # a lost sensitivity is a defect of the checker, not a violation of the property on this tree: it is recorded in
            # the evidence and printed, but it does not make the property's check fail
            print("WARNING sensitivity lost for: " + ", ".join(r["id"] for r in bad))
        sys.exit(0)
    json.dump(res, open(os.path.join(HERE, "last_result.json"), "w"), indent=1)
    sys.exit(0)


if __name__ == "__main__":
    main()
