#!/usr/bin/env python3
"""Self-test of the checker: apply single-site source mutants to a scratch copy of /repo and
confirm that the expected obligation fires (and that the unchanged copy is silent).

usage: run_mutants.py [-j N] [-k idsubstr] [--keep]
Nothing under /repo or /verif is modified; scratch copies live under $TMPDIR/kvmut.* and are removed.
"""
import argparse, json, os, re, shutil, subprocess, sys, tempfile, concurrent.futures as cf

HERE = os.path.dirname(os.path.abspath(__file__))
VERIF = os.path.dirname(HERE)
REPO = os.environ.get("KVERIF_REPO", "/repo")
sys.path.insert(0, HERE)
from mutants import MUTANTS  # noqa

ENV = dict(os.environ, PATH="/opt/veriftools/go1.26.8/bin:" + os.environ["PATH"], GOTOOLCHAIN="local",
           GOFLAGS="-mod=mod", GOPROXY="off", GOSUMDB="off")
ENV.pop("GOWORK", None)


def make_copy(dst):
    os.makedirs(dst)
    for d in ("pkg", "kwok"):
        shutil.copytree(os.path.join(REPO, d), os.path.join(dst, d), symlinks=True)
    for f in ("go.mod", "go.sum"):
        shutil.copy(os.path.join(REPO, f), dst)
    vd = os.path.join(dst, ".verif")
    os.makedirs(vd)
    shutil.copy(os.path.join(VERIF, "known_findings.json"), vd)
    return vd


def run_one(m, keep=False):
    tmp = tempfile.mkdtemp(prefix="kvmut.")
    dst = os.path.join(tmp, "repo")
    try:
        vd = make_copy(dst)
        for e in m["edits"]:
            p = os.path.join(dst, e["file"])
            s = open(p).read()
            if e.get("regex"):
                s2, n = re.subn(e["find"], e["replace"], s, count=1, flags=re.S)
            else:
                n = s.count(e["find"])
                s2 = s.replace(e["find"], e["replace"], 1)
            if n == 0:
                return dict(id=m["id"], verdict="N/A", detail="anchor text not found in " + e["file"])
            open(p, "w").write(s2)
        fired, out_all = set(), ""
        for prop in m["props"]:
            env = dict(ENV, KVERIF_REPO=dst, KVERIF_DIR=vd)
            r = subprocess.run([os.path.join(VERIF, "bin", "kverif"), "check", prop, m.get("tier", "quick")],
                               capture_output=True, text=True, errors='replace', env=env)
            out_all += r.stdout + r.stderr
            for line in r.stdout.splitlines():
                mm = re.match(r"\s+\[(\S+) (violated|undecided)\]", line)
                if mm:
                    fired.add(mm.group(1))
        if any(f.endswith(".LOAD") for f in fired):
            return dict(id=m["id"], verdict="INVALID", detail="mutant does not type-check: " + out_all[-400:])
        expect = m["expect"]
        hit = [f for f in fired if any(f == x or f.startswith(x) for x in expect)]
        verdict = "CAUGHT" if hit else ("CAUGHT-OTHER" if fired else "MISSED")
        if not expect:
            verdict = "FALSE-ALARM" if fired else "SILENT-OK"
        return dict(id=m["id"], verdict=verdict, fired=sorted(fired), expect=expect, what=m.get("what", ""))
    finally:
        if not keep:
            shutil.rmtree(tmp, ignore_errors=True)


def main():
    ap = argparse.ArgumentParser()
    ap.add_argument("-j", type=int, default=6)
    ap.add_argument("-k", default="")
    ap.add_argument("--keep", action="store_true")
    a = ap.parse_args()
    subprocess.run([os.path.join(VERIF, "run.sh"), "build"], check=True)
    ms = [m for m in MUTANTS if a.k in m["id"] or a.k in ",".join(m["props"])]
    res = []
    with cf.ThreadPoolExecutor(a.j) as ex:
        for r in ex.map(lambda m: run_one(m, a.keep), ms):
            res.append(r)
            print(f'{r["id"]:8} {r["verdict"]:13} fired={r.get("fired","")} expect={r.get("expect","")} {r.get("detail","")}', flush=True)
    tot = len(res)
    caught = sum(r["verdict"] in ("CAUGHT", "SILENT-OK") for r in res)
    other = sum(r["verdict"] == "CAUGHT-OTHER" for r in res)
    print(f"\n{caught}/{tot} caught by the expected obligation, {other} by another, "
          f'{sum(r["verdict"]=="MISSED" for r in res)} missed, {sum(r["verdict"] in ("N/A","INVALID") for r in res)} n/a or invalid')
    json.dump(res, open(os.path.join(HERE, "last_result.json"), "w"), indent=1)
    sys.exit(0)


if __name__ == "__main__":
    main()
