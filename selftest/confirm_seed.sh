#!/bin/bash
# usage: confirm_seed.sh <seed-dir> [--skip-baseline]
# Confirms a sub-agent's seeded change in a scratch worktree of /repo: patch applies, demo passes on the pristine tree,
# fails on the changed tree, the changed tree builds and passes the pinned suite. Writes <seed-dir>/confirm.json.
set -u
SD=${1:?seed dir}; SKIP=${2:-}
export PATH=/opt/veriftools/go1.26.8/bin:$PATH GOFLAGS=-mod=mod GOPROXY=off GOSUMDB=off GOTOOLCHAIN=local CGO_ENABLED=0
unset GOWORK
name=$(basename "$SD")
WT=$(mktemp -d /tmp/confirm.$name.XXXX)
rmdir "$WT"
git -C /repo worktree add --detach "$WT" HEAD >/dev/null 2>&1 || { echo "worktree failed"; exit 2; }
cleanup() { git -C /repo worktree remove --force "$WT" >/dev/null 2>&1; rm -rf "$WT"; }
trap cleanup EXIT
demo_file=$(python3 -c "import json,sys;print(json.load(open('$SD/meta.json'))['demo_file'])")
demo_pkg=$(python3 -c "import json,sys;print(json.load(open('$SD/meta.json'))['demo_pkg'])")
src=$(ls "$SD"/zz_seed_*_test.go | head -1)
[ -f "$src" ] || { echo "no demo file"; exit 2; }
run_demo() { (cd "$WT" && go test -vet=off -count=1 -run 'TestSeed' "$demo_pkg" 2>&1 | tail -40); }
applies=false; pristine=fail; changed=pass; baseline=skipped
git -C "$WT" apply --check "$SD/patch.diff" 2>/dev/null && applies=true
touches_test=$(grep -c '^+++ b/.*\(_test\.go\|pkg/test/\|/fake/\)' "$SD/patch.diff")
cp "$src" "$WT/$demo_file"
out1=$(run_demo); echo "$out1" | grep -q '^ok' && pristine=pass
if $applies; then
  git -C "$WT" apply "$SD/patch.diff"
  out2=$(run_demo); echo "$out2" | grep -q '^ok' || changed=fail
  echo "$out2" | grep -q 'build failed\|cannot use\|undefined:' && changed=builderror
  rm -f "$WT/$demo_file"
  if [ "$SKIP" != "--skip-baseline" ]; then
    if "$(dirname "$0")/seedkit/check.sh" "$WT" 2>&1 | tail -3 | grep -q 'BASELINE OK'; then baseline=ok; else baseline=broken; fi
  fi
fi
python3 - "$SD" "$applies" "$pristine" "$changed" "$baseline" "$touches_test" <<'PY'
import json,sys
sd,applies,pristine,changed,baseline,tt=sys.argv[1:]
ok = applies=='true' and pristine=='pass' and changed=='fail' and baseline in ('ok','skipped') and tt=='0'
json.dump(dict(patch_applies=applies=='true', demo_on_pristine=pristine, demo_on_changed=changed, baseline=baseline, touches_test_code=int(tt), confirmed=ok), open(sd+'/confirm.json','w'), indent=1)
print(sd, 'CONFIRMED' if ok else 'REJECTED', dict(applies=applies, pristine=pristine, changed=changed, baseline=baseline, touches_test=tt))
PY
