#!/usr/bin/env python3
"""run_seeded_scratch.py <dir>... : like run_seeded.py but on scratch copies (parallel, never touches /repo)."""
import json, os, sys, concurrent.futures as cf
HERE = os.path.dirname(os.path.abspath(__file__)); sys.path.insert(0, HERE)
import run_mutants as rm
ms = []
for d in sys.argv[1:]:
    if not os.path.exists(os.path.join(d, "patch.diff")) or not os.path.exists(os.path.join(d, "meta.json")):
        continue
    meta = json.load(open(os.path.join(d, "meta.json")))
    ms.append(dict(id=os.path.basename(d.rstrip("/")), props=[meta["property"]] + meta.get("also_check", []), tier="quick", patch=os.path.join(d, "patch.diff"),
                   expect=["C"], what=meta.get("summary", "")[:110]))
n = 0
with cf.ThreadPoolExecutor(4) as ex:
    for r in ex.map(rm.run_one, ms):
        v = "CAUGHT" if r.get("fired") else r["verdict"]
        n += v == "CAUGHT"
        print(f'{r["id"]:8} {v:8} {r.get("fired", r.get("detail",""))}  — {r.get("what","")}', flush=True)
print(f"\n{n}/{len(ms)} seeded changes caught")
