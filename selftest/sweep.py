#!/usr/bin/env python3
"""sweep.py — mutation sweep over the anchored source files (gap finder for the rule tables; not a check).

For every single-site variant produced by `kverif mutgen` for the files listed in properties.jsonl (anchors.files, plus
--extra files) the analysis is re-run on the variant (handed to the loader as an overlay: nothing is copied, /repo is not
touched) for the properties that anchor that file, and the rules that fire are recorded. Variants that do not type-check
are dropped. Output: <out>/results.jsonl (one line per variant) and <out>/missed.txt (variants no rule reports, grouped
by function, with the changed source text) for triage: each missed variant is either irrelevant to the property /
behaviour-preserving, or a gap that wants a row in the table.

usage: sweep.py --out DIR [-j N] [--files f1,f2] [--props C01,C02] [--ops NEG,DEL,...] [--sample K] [--bin PATH] [--all-props]
"""
import argparse, collections, concurrent.futures as cf, json, os, random, re, subprocess, sys, tempfile

HERE = os.path.dirname(os.path.abspath(__file__))
VERIF = os.path.dirname(HERE)
REPO = os.environ.get("KVERIF_REPO", "/repo")
ENV = dict(os.environ, PATH="/opt/veriftools/go1.26.8/bin:" + os.environ["PATH"], GOTOOLCHAIN="local", GOFLAGS="-mod=mod",
           GOPROXY="off", GOSUMDB="off", KVERIF_FASTLOAD="1")
ENV.pop("GOWORK", None)

EXTRA = {  # files the anchors rely on (lower layers), with the properties whose tables follow them down
    "pkg/utils/ringbuffer/buffer.go": ["C20"],
    "pkg/controllers/state/podresources.go": ["C11"],
    "pkg/utils/node/node.go": ["C04", "C07", "C11"],
    "pkg/utils/nodeclaim/nodeclaim.go": ["C14", "C16"],
    "pkg/utils/pod/scheduling.go": ["C07", "C10", "C04"],
    "pkg/scheduling/taints.go": ["C01", "C10", "C14"],
    "pkg/controllers/nodeclaim/lifecycle/termination.go": ["C09"],
    "pkg/controllers/provisioning/batcher.go": ["C04"],
    "pkg/controllers/nodeclaim/disruption/controller.go": ["C07", "C15"],
}


def file_props():
    f2p = collections.defaultdict(list)
    for line in open(os.path.join(VERIF, "properties.jsonl")):
        p = json.loads(line)
        for f in p["anchors"]["files"]:
            f2p[f].append(p["id"])
    for f, ps in EXTRA.items():
        if os.path.exists(os.path.join(REPO, f)):
            for p in ps:
                if p not in f2p[f]:
                    f2p[f].append(p)
    return {f: ps for f, ps in f2p.items() if os.path.exists(os.path.join(REPO, f))}


def run_one(args):
    m, props, binp, scratch = args
    src = open(os.path.join(REPO, m["file"]), "rb").read()
    new = src[: m["start"]] + m["new"].encode() + src[m["end"]:]
    d = tempfile.mkdtemp(prefix="sw.", dir=scratch)
    try:
        nf = os.path.join(d, "f.go")
        open(nf, "wb").write(new)
        ov = os.path.join(d, "ov.json")
        json.dump({m["file"]: nf}, open(ov, "w"))
        os.makedirs(os.path.join(d, "v"))
        subprocess.run(["cp", os.path.join(VERIF, "known_findings.json"), os.path.join(d, "v")])
        fired = set()
        out_all = ""
        env = dict(ENV, KVERIF_OVERLAY=ov, KVERIF_DIR=os.path.join(d, "v"), KVERIF_REPO=REPO)
        if len(props) > 3:
            cmds = [[binp, "check", "all", "quick"]]
        else:
            cmds = [[binp, "check", p, "quick"] for p in props]
        for c in cmds:
            r = subprocess.run(c, capture_output=True, text=True, errors="replace", env=env)
            out_all += r.stdout
            for mm in re.finditer(r"^\s+\[(C\d\d\.\S+) (violated|undecided)\]", r.stdout, re.M):
                if len(props) > 3 and mm.group(1)[:3] not in props and not mm.group(1).endswith(".LOAD"):
                    continue
                fired.add(mm.group(1))
        if any(f.endswith(".LOAD") for f in fired):
            return dict(m, verdict="INVALID")
        return dict(m, verdict="CAUGHT" if fired else "MISSED", fired=sorted(fired), props=props)
    finally:
        subprocess.run(["rm", "-rf", d])


def main():
    ap = argparse.ArgumentParser()
    ap.add_argument("--out", required=True)
    ap.add_argument("-j", type=int, default=10)
    ap.add_argument("--files", default="")
    ap.add_argument("--props", default="")
    ap.add_argument("--ops", default="")
    ap.add_argument("--sample", type=int, default=0)
    ap.add_argument("--bin", default=os.path.join(VERIF, "bin", "kverif"))
    ap.add_argument("--all-props", action="store_true", help="run every table on every variant (cross-property catches)")
    a = ap.parse_args()
    os.makedirs(a.out, exist_ok=True)
    scratch = os.path.join(a.out, "scratch")
    os.makedirs(scratch, exist_ok=True)
    f2p = file_props()
    files = sorted(f2p)
    if a.files:
        files = [f for f in files if any(x in f for x in a.files.split(","))]
    if a.props:
        want = set(a.props.split(","))
        files = [f for f in files if want & set(f2p[f])]
    r = subprocess.run([a.bin, "mutgen"] + files, capture_output=True, text=True, env=dict(ENV, KVERIF_REPO=REPO))
    ms = [json.loads(l) for l in r.stdout.splitlines()]
    # a guard clause is tested by DELIF; its NEG twin adds nothing
    delif = {(m["file"], m["line"]) for m in ms if m["op"] == "DELIF"}
    ms = [m for m in ms if not (m["op"] == "NEG" and (m["file"], m["line"]) in delif)]
    if a.ops:
        ops = a.ops.split(",")
        ms = [m for m in ms if any(m["op"].startswith(o) for o in ops)]
    done = {}
    resf = os.path.join(a.out, "results.jsonl")
    if os.path.exists(resf):
        for l in open(resf):
            x = json.loads(l)
            done[(x["file"], x["start"], x["end"], x["new"])] = x
    todo = [m for m in ms if (m["file"], m["start"], m["end"], m["new"]) not in done]
    if a.sample and len(todo) > a.sample:
        random.seed(1)
        todo = random.sample(todo, a.sample)
    print(f"{len(ms)} variants over {len(files)} files, {len(done)} already done, running {len(todo)}", flush=True)
    allp = sorted({p for ps in f2p.values() for p in ps})
    jobs = []
    for m in todo:
        props = f2p[m["file"]]
        if a.props:
            props = [p for p in props if p in a.props.split(",")]
        if a.all_props:
            props = allp
        jobs.append((m, props, a.bin, scratch))
    n = 0
    with open(resf, "a") as out, cf.ThreadPoolExecutor(a.j) as ex:
        for res in ex.map(run_one, jobs):
            out.write(json.dumps(res) + "\n")
            out.flush()
            n += 1
            if n % 50 == 0:
                print(n, "done", flush=True)
    report(a.out)


def report(outdir):
    rows = [json.loads(l) for l in open(os.path.join(outdir, "results.jsonl"))]
    valid = [r for r in rows if r["verdict"] != "INVALID"]
    caught = [r for r in valid if r["verdict"] == "CAUGHT"]
    print(f"{len(rows)} variants, {len(rows)-len(valid)} do not type-check, {len(caught)}/{len(valid)} reported by some rule "
          f"({100.0*len(caught)/max(1,len(valid)):.0f}%)")
    byf = collections.defaultdict(list)
    for r in valid:
        byf[(r["file"], r["func"])].append(r)
    with open(os.path.join(outdir, "missed.txt"), "w") as f:
        for (fl, fn), rs in sorted(byf.items()):
            miss = [r for r in rs if r["verdict"] == "MISSED"]
            f.write(f"\n== {fl} {fn}: {len(rs)-len(miss)}/{len(rs)} bound  props={rs[0].get('props')}\n")
            for r in sorted(miss, key=lambda r: (r["line"], r["op"])):
                old = r["old"].replace("\n", "⏎ ")
                f.write(f"   L{r['line']:<4} {r['op']:<10} {old[:150]}   =>   {r['new'][:60]}\n")
    byfile = collections.Counter()
    totfile = collections.Counter()
    for r in valid:
        totfile[r["file"]] += 1
        byfile[r["file"]] += r["verdict"] == "CAUGHT"
    for fl in sorted(totfile):
        print(f"  {byfile[fl]:4}/{totfile[fl]:<4} {fl}")


if __name__ == "__main__":
    if len(sys.argv) > 2 and sys.argv[1] == "report":
        report(sys.argv[2])
    else:
        main()
