#!/usr/bin/env python3
"""install_seed.py <seed-dir>... : copy a confirmed seeded change (confirm.json says confirmed) to /verif/seeded/<name>/."""
import json, os, shutil, sys, glob
VERIF = os.path.dirname(os.path.dirname(os.path.abspath(__file__)))
for sd in sys.argv[1:]:
    name = os.path.basename(sd.rstrip("/"))
    cf = os.path.join(sd, "confirm.json")
    if not os.path.exists(cf) or not json.load(open(cf)).get("confirmed"):
        print(name, "not confirmed - skipped"); continue
    dst = os.path.join(VERIF, "seeded", name)
    os.makedirs(dst, exist_ok=True)
    for f in ["patch.diff", "demo_pristine.txt", "demo_changed.txt"] + [os.path.basename(x) for x in glob.glob(os.path.join(sd, "zz_seed_*_test.go"))]:
        if os.path.exists(os.path.join(sd, f)):
            shutil.copy(os.path.join(sd, f), dst)
    meta = json.load(open(os.path.join(sd, "meta.json")))
    old = {}
    if os.path.exists(os.path.join(dst, "meta.json")):
        old = json.load(open(os.path.join(dst, "meta.json")))
    meta["confirmation"] = json.load(open(cf))
    meta["origin"] = "fresh sub-agent given only the property text and a scratch worktree"
    for k in ("first_run", "caught_by", "strengthened"):
        if k in old:
            meta[k] = old[k]
    json.dump(meta, open(os.path.join(dst, "meta.json"), "w"), indent=1)
    print(name, "installed")
